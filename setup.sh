#!/bin/sh
# Offline setup: build the checker and warm a small seed GOCACHE (runtime only)
# that every check copies into its scratch area.
set -e
cd "$(dirname "$0")"
export GOFLAGS=-mod=mod GOPROXY=off GOSUMDB=off GOTOOLCHAIN=local GOWORK=off
mkdir -p bin .cache
go build -o bin/vcheck ./cmd/vcheck
# self-tests of the machinery (explorer, reference model, AST comparer); fast, need no wire
go test ./internal/explore/ ./internal/ir/ ./internal/astcmp/ >/dev/null
# pre-build wire's dependencies into the default GOCACHE
(cd /repo && go build -tags verif -o /dev/null ./cmd/wire)
# seed cache: compile a println-only program so that runtime & friends are cached
if [ ! -d .cache/seed-gocache ]; then
  T=$(mktemp -d)
  mkdir -p "$T/m"
  printf 'module seed\n\ngo 1.23\n' > "$T/m/go.mod"
  printf 'package main\n\nimport "reflect"\n\nfunc main() { println("x", reflect.DeepEqual(1, 2)) }\n' > "$T/m/main.go"
  (cd "$T/m" && GOCACHE="$T/cache" CGO_ENABLED=0 go build -o "$T/m/x" .)
  rm -rf .cache/seed-gocache
  mv "$T/cache" .cache/seed-gocache
  rm -rf "$T"
fi
echo setup ok
