// Package astcmp compares two Go declarations structurally: every field of every
// AST node must agree, positions only in their validity (flags such as Slice3,
// Ellipsis, Assign, Lparen), identifiers up to one consistent bijective renaming.
package astcmp

import (
	"fmt"
	"go/ast"
	"go/token"
	"reflect"
)

// Renaming is a bijection between identifier names of the original and of the copy.
type Renaming struct {
	fwd map[string]string
	rev map[string]string
}

func NewRenaming() *Renaming { return &Renaming{fwd: map[string]string{}, rev: map[string]string{}} }

func isSuffixRename(a, b string) bool {
	if len(b) <= len(a) || b[:len(a)] != a {
		return false
	}
	for _, c := range b[len(a):] {
		if !(c >= '0' && c <= '9') && c != '_' {
			return false
		}
	}
	return true
}

// unify accepts identical names, wire's disambiguation pattern (name -> name2, name2_2, ...:
// distinct objects of one name may legitimately get different suffixes, so this is not required to
// be a function), and otherwise one consistent mapping (package qualifiers: acfg -> cfg).
// Whether a renaming captures is decided by compiling and running the copy, not here.
func (r *Renaming) unify(a, b string) error {
	if a == b {
		return nil
	}
	if isSuffixRename(a, b) {
		r.fwd[a+"~"+b] = b
		return nil
	}
	if x, ok := r.fwd[a]; ok {
		if x != b {
			return fmt.Errorf("identifier %q is rendered both as %q and as %q", a, x, b)
		}
		return nil
	}
	r.fwd[a] = b
	r.rev[b] = a
	return nil
}

// Renamed lists the non-identity pairs.
func (r *Renaming) Renamed() map[string]string {
	out := map[string]string{}
	for a, b := range r.fwd {
		if a != b {
			out[a] = b
		}
	}
	return out
}

var (
	posType   = reflect.TypeOf(token.NoPos)
	identType = reflect.TypeOf((*ast.Ident)(nil))
	objType   = reflect.TypeOf((*ast.Object)(nil))
	scopeType = reflect.TypeOf((*ast.Scope)(nil))
	cgType    = reflect.TypeOf((*ast.CommentGroup)(nil))
)

// Equal compares original a with copy b. ignoreInnerComments: only Doc comment groups are compared.
func Equal(a, b ast.Node, r *Renaming) error {
	return cmp(reflect.ValueOf(a), reflect.ValueOf(b), r, "")
}

func cmp(a, b reflect.Value, r *Renaming, path string) error {
	if a.Kind() == reflect.Interface {
		if a.IsNil() != b.IsNil() {
			return fmt.Errorf("%s: one side is nil (original %v, copy %v)", path, describe(a), describe(b))
		}
		if a.IsNil() {
			return nil
		}
		a, b = a.Elem(), b.Elem()
	}
	// a dot-imported identifier is legitimately rewritten into a qualified one
	if a.Type() == identType && b.Type() != identType && !a.IsNil() {
		if sel, ok := b.Interface().(*ast.SelectorExpr); ok {
			if x, ok := sel.X.(*ast.Ident); ok && sel.Sel.Name == a.Interface().(*ast.Ident).Name {
				return r.unify("."+x.Name, "."+x.Name)
			}
		}
	}
	if a.Type() != b.Type() {
		return fmt.Errorf("%s: node kind differs: original %s, copy %s", path, a.Type(), b.Type())
	}
	switch a.Kind() {
	case reflect.Ptr:
		if a.IsNil() != b.IsNil() {
			return fmt.Errorf("%s: %s present in one side only (original nil=%v, copy nil=%v)", path, a.Type(), a.IsNil(), b.IsNil())
		}
		if a.IsNil() {
			return nil
		}
		switch a.Type() {
		case objType, scopeType:
			return nil
		case identType:
			ia, ib := a.Interface().(*ast.Ident), b.Interface().(*ast.Ident)
			if err := r.unify(ia.Name, ib.Name); err != nil {
				return fmt.Errorf("%s: %v", path, err)
			}
			return nil
		case cgType:
			ca, cb := a.Interface().(*ast.CommentGroup), b.Interface().(*ast.CommentGroup)
			if ca.Text() != cb.Text() {
				return fmt.Errorf("%s: comment differs: %q vs %q", path, ca.Text(), cb.Text())
			}
			return nil
		}
		return cmp(a.Elem(), b.Elem(), r, path+"/"+a.Elem().Type().Name())
	case reflect.Struct:
		for i := 0; i < a.NumField(); i++ {
			f := a.Type().Field(i)
			if f.Name == "Comment" && f.Type == cgType {
				continue // trailing line comments are not part of the declaration's meaning
			}
			if err := cmp(a.Field(i), b.Field(i), r, path+"."+f.Name); err != nil {
				return err
			}
		}
		return nil
	case reflect.Slice:
		if a.Len() != b.Len() {
			return fmt.Errorf("%s: list length differs: original %d, copy %d", path, a.Len(), b.Len())
		}
		for i := 0; i < a.Len(); i++ {
			if err := cmp(a.Index(i), b.Index(i), r, fmt.Sprintf("%s[%d]", path, i)); err != nil {
				return err
			}
		}
		return nil
	case reflect.Int, reflect.Int64:
		if a.Type() == posType {
			if (a.Int() != 0) != (b.Int() != 0) {
				return fmt.Errorf("%s: position flag differs (original valid=%v, copy valid=%v)", path, a.Int() != 0, b.Int() != 0)
			}
			return nil
		}
		if a.Int() != b.Int() {
			return fmt.Errorf("%s: %d vs %d", path, a.Int(), b.Int())
		}
		return nil
	case reflect.String:
		if a.String() != b.String() {
			return fmt.Errorf("%s: %q vs %q", path, a.String(), b.String())
		}
		return nil
	case reflect.Bool:
		if a.Bool() != b.Bool() {
			return fmt.Errorf("%s: %v vs %v", path, a.Bool(), b.Bool())
		}
		return nil
	}
	return nil
}

func describe(v reflect.Value) string {
	if !v.IsValid() || (v.Kind() == reflect.Interface && v.IsNil()) {
		return "nil"
	}
	return v.Elem().Type().String()
}
