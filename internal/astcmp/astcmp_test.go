package astcmp

import (
	"go/parser"
	"go/token"
	"testing"
)

func decl(t *testing.T, src string) interface{} {
	f, err := parser.ParseFile(token.NewFileSet(), "x.go", "package p\n"+src, parser.ParseComments)
	if err != nil {
		t.Fatal(err)
	}
	return f.Decls[0]
}

func TestEqualDetectsDroppedFields(t *testing.T) {
	cases := []struct {
		a, b string
		same bool
	}{
		{"func F(s []int) []int { return s[1:2:3] }", "func F(s []int) []int { return s[1:2:3] }", true},
		{"func F(s []int) []int { return s[1:2:3] }", "func F(s []int) []int { return s[1:2] }", false},
		{"func F[T any](x T) T { return x }", "func F(x T) T { return x }", false},
		{"func F(xs ...int) { G(xs...) }", "func F(xs ...int) { G(xs) }", false},
		{"type A = int", "type A int", false},
		{"func F() { cfg := 1; _ = cfg }", "func F() { cfg2 := 1; _ = cfg2 }", true},
		{"func F() { x := 1; _ = x }", "func F() { y := 1; _ = y }", true},
		{"func F() { x := 1; _ = x }", "func F() { y := 1; _ = z }", false},
		{"var x = <-ch", "var x = ch", false},
	}
	for _, c := range cases {
		a, b := decl(t, c.a), decl(t, c.b)
		err := Equal(a.(interface {
			Pos() token.Pos
			End() token.Pos
		}), b.(interface {
			Pos() token.Pos
			End() token.Pos
		}), NewRenaming())
		if (err == nil) != c.same {
			t.Errorf("%q vs %q: same=%v, err=%v", c.a, c.b, c.same, err)
		}
	}
}
