package props

import (
	"fmt"
	"strings"

	"verif/internal/explore"
	"verif/internal/h"
	"verif/internal/ir"
)

func init() { register("C11", "model_checking", checkC11) }

var (
	c11Iface    = []string{"plain", "embeds", "otherpkg"}
	c11Impl     = []string{"valuerecv", "ptrrecv", "none", "itself", "wider", "own-methods-only"}
	c11Conc     = []string{"T", "*T"}
	c11Provided = []string{"func", "struct", "value", "param", "field", "nested-in-bind-set", "outer-only", "sibling-only", "outer-only-inline"}
)

// bindProgram builds one point of the binding matrix. It returns nil for inexpressible points.
func bindProgram(ifk, impl, conc, how, nI, nC int, noBinding bool, depth, order int) *ir.Program {
	return bindProgramX(ifk, impl, conc, how, nI, nC, noBinding, depth, order, 0, 0)
}

// second: 0 none; 1 a second, valid binding (another interface bound to the same concrete type) listed after the first;
// 2 a second binding whose concrete type is not provided anywhere, listed after the first; 3 the same, listed before.
// wireImp: how wire is imported (plain, alias, dot).
func bindProgramX(ifk, impl, conc, how, nI, nC int, noBinding bool, depth, order, second, wireImp int) *ir.Program {
	b := ir.NewBuilder()
	p := b.Root
	ip := p
	if ifk == 2 {
		ip = b.Lib
	}
	var iface *ir.Type
	base := b.Iface(ip, "Base")
	switch ifk {
	case 1:
		iface = b.Iface(ip, "I", base)
	default:
		iface = b.Iface(ip, "I")
	}
	// the implementing named type: a leaf, or an aggregate when it comes from a struct provider
	var named *ir.Type
	x := b.Leaf(p, "X")
	if how == 1 {
		named = b.Agg(p, "L", &ir.Field{Name: "F", T: x})
	} else {
		named = b.Leaf(p, "L")
	}
	var concT *ir.Type
	var extra []*ir.Item
	switch impl {
	case 0:
		named.Impls = []*ir.Type{iface}
	case 1:
		named.Impls = []*ir.Type{iface}
		named.PtrRecv = true
	case 2:
		// implements nothing
	case 5:
		// declares the interface's own methods but not those of the embedded interface
		if ifk != 1 {
			return nil
		}
		named.Impls = []*ir.Type{iface}
		named.Partial = true
		named.PtrRecv = conc == 1
	case 3:
		// bind the interface to itself; the interface is provided by a function
		if conc == 1 || how != 0 {
			return nil
		}
		concT = iface
	case 4:
		// a wider interface W embedding I, provided by a function, an interface value, an injector parameter or
		// a field, or only in the enclosing call / a sibling set
		if conc == 1 || how == 1 {
			return nil
		}
		concT = b.Iface(p, "W", iface)
		named.Impls = []*ir.Type{concT}
	}
	if concT == nil {
		if conc == 1 {
			concT = ir.Ptr(named)
		} else {
			concT = named
		}
	}
	// how the concrete type is provided
	var concItems []*ir.Item
	var params []ir.Param
	switch how {
	case 0, 5, 6, 7, 8:
		concItems = []*ir.Item{ir.FuncItem(&ir.Func{Pkg: p, Name: "PConc", Out: concT})}
	case 1:
		concItems = []*ir.Item{ir.StructItem(named, "*"), ir.FuncItem(&ir.Func{Pkg: p, Name: "PX", Out: x})}
	case 2:
		if concT.Strip().Kind == ir.KIface {
			concItems = []*ir.Item{ir.IfaceValueItem(concT, named, 9001)}
		} else {
			concItems = []*ir.Item{ir.ValueItem(concT, 9001)}
		}
	case 3:
		params = []ir.Param{{Name: "c", T: concT}}
	case 4:
		hd := b.Agg(p, "Holder", &ir.Field{Name: "F", T: concT})
		concItems = []*ir.Item{ir.FuncItem(&ir.Func{Pkg: p, Name: "PHolder", Out: hd}), ir.FieldsOfItem(hd, false, "F")}
	}
	_ = extra
	bind := ir.BindItem(iface, concT)
	var secondBind *ir.Item
	switch second {
	case 1:
		other := b.Iface(p, "Other")
		if named.Impls != nil && concT != iface && !named.Partial {
			named.Impls = append(named.Impls, other)
			secondBind = ir.BindItem(other, concT)
		}
	case 2, 3:
		other := b.Iface(p, "Other")
		ghost := b.Leaf(p, "Ghost")
		ghost.Impls = []*ir.Type{other}
		secondBind = ir.BindItem(other, ghost)
	}
	// consumers
	r := b.Leaf(p, "R")
	var rdeps []*ir.Type
	var consumers []*ir.Item
	for k := 0; k < nI; k++ {
		a := b.Leaf(p, fmt.Sprintf("A%d", k))
		consumers = append(consumers, ir.FuncItem(&ir.Func{Pkg: p, Name: fmt.Sprintf("PA%d", k), Params: []*ir.Type{iface}, Out: a}))
		rdeps = append(rdeps, a)
	}
	for k := 0; k < nC; k++ {
		a := b.Leaf(p, fmt.Sprintf("B%d", k))
		consumers = append(consumers, ir.FuncItem(&ir.Func{Pkg: p, Name: fmt.Sprintf("PB%d", k), Params: []*ir.Type{concT}, Out: a}))
		rdeps = append(rdeps, a)
	}
	if order == 1 {
		// consumers of the concrete type come first: the concrete type is visited before the interface
		for i, j := 0, len(rdeps)-1; i < j; i, j = i+1, j-1 {
			rdeps[i], rdeps[j] = rdeps[j], rdeps[i]
		}
	}
	if order == 2 {
		// one consumer takes both, concrete type first
		both := b.Leaf(p, "Both")
		consumers = append(consumers, ir.FuncItem(&ir.Func{Pkg: p, Name: "PBoth", Params: []*ir.Type{concT, iface}, Out: both}))
		rdeps = append([]*ir.Type{both}, rdeps...)
	}
	consumers = append(consumers, ir.FuncItem(&ir.Func{Pkg: p, Name: "PR", Params: rdeps, Out: r}))
	inj := &ir.Injector{Name: "Init", Out: r, Params: params}
	switch {
	case noBinding:
		inj.Items = append(append([]*ir.Item{}, concItems...), consumers...)
	case how == 5:
		inner := &ir.Set{Pkg: p, Name: "ConcSet", Items: concItems}
		bs := &ir.Set{Pkg: p, Name: "BindSet", Items: []*ir.Item{bind, ir.SetRef(inner)}}
		inj.Items = append([]*ir.Item{ir.SetRef(bs)}, consumers...)
	case how == 6:
		// binding alone in its own set, the concrete type only in the enclosing Build call
		bs := &ir.Set{Pkg: p, Name: "BindSet", Items: []*ir.Item{bind}}
		inj.Items = append(append([]*ir.Item{ir.SetRef(bs)}, concItems...), consumers...)
	case how == 8:
		// binding alone in an anonymous inline set, the concrete type only in the enclosing Build call
		inj.Items = append(append([]*ir.Item{ir.InlineSet(&ir.Set{Pkg: p, Items: []*ir.Item{bind}})}, concItems...), consumers...)
	case how == 7:
		bs := &ir.Set{Pkg: p, Name: "BindSet", Items: []*ir.Item{bind}}
		cs := &ir.Set{Pkg: p, Name: "ConcSet", Items: concItems}
		inj.Items = append([]*ir.Item{ir.SetRef(bs), ir.SetRef(cs)}, consumers...)
	default:
		core := append([]*ir.Item{bind}, concItems...)
		if secondBind != nil {
			if second == 3 {
				core = append([]*ir.Item{secondBind}, core...)
			} else {
				core = append(core, secondBind)
			}
			if second == 1 {
				// make the second interface needed so that its binding is used
				o := secondBind.T
				oc := b.Leaf(p, "OC")
				consumers = append([]*ir.Item{ir.FuncItem(&ir.Func{Pkg: p, Name: "POC", Params: []*ir.Type{o}, Out: oc})}, consumers...)
				pr := consumers[len(consumers)-1].Fn
				pr.Params = append(pr.Params, oc)
			}
		}
		if depth > 0 {
			// the binding and its concrete type sit depth levels of named sets below wire.Build
			set := &ir.Set{Pkg: p, Name: "Level0", Items: core}
			for d := 1; d < depth; d++ {
				set = &ir.Set{Pkg: p, Name: fmt.Sprintf("Level%d", d), Items: []*ir.Item{ir.SetRef(set)}}
			}
			core = []*ir.Item{ir.SetRef(set)}
		}
		inj.Items = append(core, consumers...)
	}
	return &ir.Program{Root: p, Injectors: []*ir.Injector{inj}, WireImport: wireImp}
}

func checkC11(c *h.Check) {
	var cases []*h.Case
	kinds := tally{}
	st := explore.Run(-1, func(x *explore.Ctx) {
		x.Choose("iface", len(c11Iface))
		x.Choose("impl", len(c11Impl))
		x.Choose("conc", len(c11Conc))
		x.Choose("how", len(c11Provided))
		x.Choose("nI", 2)
		x.Choose("nC", 3)
		x.Choose("nobind", 2)
		x.Choose("depth", 4)
		x.Choose("order", 3)
		// deviations on top of the product: a second binding in the same set, and the way wire is imported
		dev := x.Choose("second", 4)
		if x.Choose("wireimport", 3) > 0 && dev > 0 {
			x.Skip()
		}
	}, func(x *explore.Ctx) {
		ch := x.Map()
		prog := bindProgram(ch["iface"], ch["impl"], ch["conc"], ch["how"], 1+ch["nI"], ch["nC"], ch["nobind"] == 1, ch["depth"], ch["order"])
		if ch["second"] > 0 || ch["wireimport"] > 0 {
			if ch["nobind"] == 1 || ch["how"] >= 5 || ch["nI"] > 0 || ch["nC"] > 1 {
				return // the deviations are explored on the basic placements with one consumer each
			}
			prog = bindProgramX(ch["iface"], ch["impl"], ch["conc"], ch["how"], 1+ch["nI"], ch["nC"], false, ch["depth"], ch["order"], ch["second"], ch["wireimport"])
		}
		if prog == nil {
			return
		}
		id := fmt.Sprintf("C11/iface=%s/impl=%s/conc=%s/how=%s/nI=%d/nC=%d/nobind=%d", c11Iface[ch["iface"]], c11Impl[ch["impl"]], c11Conc[ch["conc"]], c11Provided[ch["how"]], 1+ch["nI"], ch["nC"], ch["nobind"]) + fmt.Sprintf("/depth=%d/order=%d/second=%d/wire=%d", ch["depth"], ch["order"], ch["second"], ch["wireimport"])
		cs := &h.Case{ID: id, Files: ir.Render(prog, true), Drive: true,
			Judge: judgeProgramF(prog, true, map[string]bool{"wiring": true}, map[string]bool{"bad-bind": true, "bind-unprovided": true, "missing": true})}
		if !c.NoteProgram(cs.Files) {
			return
		}
		w := ir.NewModel().Solve(prog.Injectors[0])
		if len(w.Reasons) > 0 {
			kinds.inc("model:" + w.Reasons[0].Class)
		} else {
			kinds.inc("model:accept")
		}
		cases = append(cases, cs)
	})
	for _, sc := range noCallSpecs() {
		prog, _ := sc.spec.Build()
		cs := caseFromProgram("C11/"+sc.id, prog, true, map[string]bool{"wiring": true})
		if c.NoteProgram(cs.Files) {
			cases = append(cases, cs)
		}
	}
	// a binding added by a wrapper set around a base set must not be visible to an injector that uses the base set alone
	for order := 0; order < 2; order++ {
		for fat := 0; fat < 2; fat++ {
			prog := leakProgram(0, order, fat == 1)
			cs := caseFromProgram("C11/"+leakID(0, order, fat == 1), prog, true, map[string]bool{"wiring": true})
			if c.NoteProgram(cs.Files) {
				cases = append(cases, cs)
			}
		}
	}
	// bindings kept in package-level variables, declared one per spec, two per spec (either order), and in a var block:
	// each name stands for its own initialiser
	for form := 0; form < 4; form++ {
		for which := 0; which < 2; which++ {
			b := ir.NewBuilder()
			p := b.Root
			st := b.Iface(p, "Store")
			mem, disk := b.Leaf(p, "Mem"), b.Leaf(p, "Disk")
			mem.Impls, disk.Impls = []*ir.Type{st}, []*ir.Type{st}
			mem.PtrRecv, disk.PtrRecv = true, true
			app := b.Leaf(p, "App")
			bm, bd := "WIRE.Bind(new(Store), new(*Mem))", "WIRE.Bind(new(Store), new(*Disk))"
			var decl string
			switch form {
			case 0:
				decl = "var BindMem = " + bm + "\n\nvar BindDisk = " + bd + "\n"
			case 1:
				decl = "var BindMem, BindDisk = " + bm + ", " + bd + "\n"
			case 2:
				decl = "var BindDisk, BindMem = " + bd + ", " + bm + "\n"
			case 3:
				decl = "var (\n\tBindMem  = " + bm + "\n\tBindDisk = " + bd + "\n)\n"
			}
			chosen, name := ir.BindItem(st, ir.Ptr(mem)), "BindMem"
			if which == 1 {
				chosen, name = ir.BindItem(st, ir.Ptr(disk)), "BindDisk"
			}
			chosen.Raw = name
			inj := &ir.Injector{Name: "Init", Out: app, Items: []*ir.Item{
				ir.FuncItem(&ir.Func{Pkg: p, Name: "NewMem", Out: ir.Ptr(mem)}), ir.FuncItem(&ir.Func{Pkg: p, Name: "NewDisk", Out: ir.Ptr(disk)}), chosen,
				ir.FuncItem(&ir.Func{Pkg: p, Name: "NewApp", Params: []*ir.Type{st, ir.Ptr(mem), ir.Ptr(disk)}, Out: app}),
			}}
			prog := &ir.Program{Root: p, Injectors: []*ir.Injector{inj}, ExtraDecl: decl}
			cs := caseFromProgram(fmt.Sprintf("C11/binding-variables/form=%d/which=%d", form, which), prog, true, map[string]bool{"wiring": true})
			if c.NoteProgram(cs.Files) {
				cases = append(cases, cs)
			}
		}
	}
	// the ill-formed binding sits in the first of two injector files (or the last): rejected either way
	for swap := 0; swap < 2; swap++ {
		prog := twoFilesProgram(1, swap == 1)
		cs := &h.Case{ID: fmt.Sprintf("C11/two-injector-files/bad-bind/last=%d", swap), Files: ir.Render(prog, true), Drive: true,
			Judge: judgeProgramF(prog, true, map[string]bool{"wiring": true}, map[string]bool{"bad-bind": true})}
		if c.NoteProgram(cs.Files) {
			cases = append(cases, cs)
		}
	}
	// two distinct named interfaces with one and the same method set: binding one to the other is not a self-binding;
	// binding an interface to itself (also through an alias) is
	for variant := 0; variant < 5; variant++ {
		for lib := 0; lib < 2; lib++ {
			b := ir.NewBuilder()
			p := b.Root
			ip := p
			if lib == 1 {
				ip = b.Lib
			}
			rd := b.Iface(ip, "Reader")
			src := b.Iface(p, "Source", rd)
			src.Bare = true // type Source interface{ Reader }: same method set, another type
			st := b.Leaf(ip, "Store")
			st.Impls = []*ir.Type{rd}
			st.PtrRecv = true
			app := b.Leaf(p, "App")
			items := []*ir.Item{ir.FuncItem(&ir.Func{Pkg: ip, Name: "NewStore", Out: ir.Ptr(st)}), ir.BindItem(rd, ir.Ptr(st))}
			deps := []*ir.Type{src}
			switch variant {
			case 0: // Source bound to Reader (bound to *Store)
				items = append(items, ir.BindItem(src, rd))
			case 1: // written first
				items = append([]*ir.Item{ir.BindItem(src, rd)}, items...)
			case 2: // Source bound to *Store directly, Reader consumed too
				items = append(items, ir.BindItem(src, ir.Ptr(st)))
				deps = []*ir.Type{src, rd}
			case 3: // Reader bound to itself: rejected
				items = append(items, ir.BindItem(rd, rd))
				deps = []*ir.Type{rd}
			case 4: // Source bound to an alias of Source: rejected
				items = append(items, ir.BindItem(src, b.Alias(p, "SourceAlias", src)))
			}
			items = append(items, ir.FuncItem(&ir.Func{Pkg: p, Name: "NewApp", Params: deps, Out: app}))
			prog := &ir.Program{Root: p, Injectors: []*ir.Injector{{Name: "Init", Out: app, Items: items}}}
			cs := &h.Case{ID: fmt.Sprintf("C11/same-method-set/variant=%d/lib=%d", variant, lib), Files: ir.Render(prog, true), Drive: true,
				Judge: judgeProgramF(prog, true, map[string]bool{"wiring": true}, map[string]bool{"bad-bind": true, "bind-unprovided": true, "missing": true, "conflict": true})}
			if c.NoteProgram(cs.Files) {
				cases = append(cases, cs)
			}
		}
	}
	// chains: the bound "concrete" type is itself an interface bound in the same set; all consumers share one instance
	permutations(3, func(perm []int) {
		for mask := 1; mask < 8; mask++ {
			prog := chainBindProgram(2, mask, perm, mask%2)
			cs := caseFromProgram(fmt.Sprintf("C11/bind-chain/consumers=%b/perm=%v", mask, perm), prog, true, map[string]bool{"wiring": true})
			if c.NoteProgram(cs.Files) {
				cases = append(cases, cs)
			}
		}
	})
	// the same binding text in two injector files of one package that import two different packages under the same
	// name: each binding means the package its own file imports
	for variant := 0; variant < 2; variant++ {
		files := c11SameTextFiles(variant)
		cs := &h.Case{ID: fmt.Sprintf("C11/same-binding-text-in-two-files/variant=%d", variant), Files: files, Drive: true,
			Judge: func(r *h.Result) []h.Violation {
				switch {
				case r.Crashed:
					return []h.Violation{{Symptom: "crash", Detail: clip(r.Raw, 1200)}}
				case r.TimedOut:
					return []h.Violation{{Symptom: "timeout", Detail: "wire did not terminate"}}
				case r.LoadFailed:
					return []h.Violation{{Symptom: "harness-illtyped", Detail: clip(r.AllDiags(), 800)}}
				case r.Root().Failed:
					return []h.Violation{{Symptom: "spurious-reject", Detail: "two well-formed bindings, each in its own file, rejected:\n" + clip(strings.Join(r.Root().Diags, "\n"), 1000)}}
				case r.CompileErr != "":
					return []h.Violation{{Symptom: "compile-error", Detail: clip(r.CompileErr, 1000)}}
				case !r.Ran:
					return []h.Violation{{Symptom: "harness-notrun", Detail: "accepted but not run"}}
				}
				for _, l := range r.Trace {
					f := strings.Fields(l)
					if len(f) == 3 && f[0] == "N" && f[1] == "kinds" && f[2] != "fast,slow,slow" {
						return []h.Violation{{Symptom: "wrong-binding", Detail: "the interface is not fed by the concrete type its binding names (kinds seen: " + f[2] + ", want fast,slow,slow)\n" + clip(r.GenSrc[""], 1500)}}
					}
				}
				return nil
			}}
		if c.NoteProgram(cs.Files) {
			cases = append(cases, cs)
		}
	}
	results := c.JudgeAll(cases)
	stdCoverage(c, cases, results, "chains of two bindings (J -> I -> *L) in every order with every set of consumers; injectors that need no provider call and return an interface bound to one of up to three arguments that all implement it; full product: interface {plain, embedding another, from another package} x implementation {value receiver, pointer receiver, none, the interface itself, a wider interface} x bound type {T, *T} x how the concrete type is provided {function, struct provider, value, injector parameter, field, nested set inside the binding's set, enclosing call only, sibling set only} x consumers of I {1,2} x consumers of C {0,1,2} x {binding, no binding} x nesting depth of the binding's set below wire.Build {0..3} x visiting order {interface first, concrete type first, one consumer of both}; a second binding in the same set {none, valid, concrete type unprovided listed after / before the first}; wire imported plainly, under an alias or with a dot import; implementation kinds include a type that declares the interface's own methods but not those of an embedded interface. Oracle: rejected exactly when the method-set rule fails, C is I, or C is not provided in the binding's own set; accepted programs are compiled and run and every consumer of I and C must receive the same instance (pointer identity unified), C's source running once; without a binding the interface is missing. The same binding text in two injector files of one package whose identically named imports denote different packages: each binding feeds its own file's type. Distinct = distinct rendered source.")
	c.Coverage["model_verdict_classes"] = kinds.summary()
	c.Coverage["explorer"] = map[string]interface{}{"executions": st.Executions, "mode": "full product"}
	sampleCase(c, cases, results)
	if kinds["model:accept"] < 50 || kinds["model:bad-bind"] < 20 || kinds["model:bind-unprovided"] < 10 || kinds["model:missing"] < 10 {
		c.Internalf("vacuous: %v", kinds)
	}
}

// c11SameTextFiles: packages fast and slow both declare Store (with Kind); the root package has two injector files
// that import one of them each under the name impl and contain the very same text wire.Bind(new(Kinder), new(*impl.Store)).
// variant 1: the second injector also receives a *fast.Store argument, so that a binding resolved to the wrong package
// would still be satisfiable.
func c11SameTextFiles(variant int) map[string]string {
	files := map[string]string{}
	for _, n := range []string{"fast", "slow"} {
		files[n+"/store.go"] = fmt.Sprintf("package %s\n\ntype Store struct{ N int }\n\nfunc (s *Store) Kind() string { return %q }\n\nfunc New() *Store { return &Store{N: 1} }\n", n, n)
	}
	files["defs.go"] = "package p\n\nimport (\n\t\"{{ROOT}}/fast\"\n\t\"{{ROOT}}/slow\"\n)\n\ntype Kinder interface{ Kind() string }\n\ntype Migrator struct {\n\tSrc *fast.Store\n\tK   Kinder\n\tDst *slow.Store\n}\n\nfunc NewMigrator(src *fast.Store, k Kinder, dst *slow.Store) Migrator { return Migrator{src, k, dst} }\n\ntype Pair struct {\n\tK   Kinder\n\tDst *slow.Store\n}\n\nfunc NewPair(k Kinder, dst *slow.Store) Pair { return Pair{k, dst} }\n"
	hdr := "//go:build wireinject\n// +build wireinject\n\npackage p\n\nimport (\n\t\"github.com/google/wire\"\n"
	files["a_inject.go"] = hdr + "\timpl \"{{ROOT}}/fast\"\n)\n\nfunc InitA() Kinder {\n\tpanic(wire.Build(impl.New, wire.Bind(new(Kinder), new(*impl.Store))))\n}\n"
	if variant == 1 {
		files["b_inject.go"] = hdr + "\t\"{{ROOT}}/fast\"\n\timpl \"{{ROOT}}/slow\"\n)\n\nfunc InitB(src *fast.Store) Migrator {\n\tpanic(wire.Build(impl.New, wire.Bind(new(Kinder), new(*impl.Store)), NewMigrator))\n}\n"
	} else {
		files["b_inject.go"] = hdr + "\timpl \"{{ROOT}}/slow\"\n)\n\nfunc InitB() Pair {\n\tpanic(wire.Build(impl.New, wire.Bind(new(Kinder), new(*impl.Store)), NewPair))\n}\n"
	}
	call := "InitB()"
	imp := ""
	if variant == 1 {
		call = "InitB(fast.New())"
		imp = "\t\"{{ROOT}}/fast\"\n"
	}
	files["driver.go"] = "package p\n\nimport (\n\t\"example.com/m/vt\"\n" + imp + ")\n\nfunc VerifDrive() {\n\tvt.Case(\"{{CASE}}\")\n\tb := " + call + "\n\tsame := \"other\"\n\tif s, ok := b.K.(interface{ Kind() string }); ok && b.K == Kinder(b.Dst) {\n\t\tsame = s.Kind()\n\t}\n\tvt.Note(\"kinds \" + InitA().Kind() + \",\" + b.K.Kind() + \",\" + same)\n}\n"
	return files
}
