package props

import (
	"fmt"
	"strings"

	"verif/internal/h"
)

func init() { register("C18", "model_checking", checkC18) }

type srcVariant struct {
	name     string
	accepted bool
	files    map[string]string
}

const c18Foo = `package app

type Cfg struct{ N int }

type Svc struct {
	C Cfg
	M int
}

func NewCfg() Cfg { return Cfg{N: 1} }

func NewSvc(c Cfg) *Svc { return &Svc{C: c} }

func NewSvcE(c Cfg) (*Svc, func(), error) { return &Svc{C: c}, func() {}, nil }

func NewM() int { return 5 }
`

func c18Wire(body string) string {
	return "//go:build wireinject\n// +build wireinject\n\npackage app\n\nimport \"github.com/google/wire\"\n\n" + body
}

func c18Variants() []srcVariant {
	return []srcVariant{
		{"A1", true, map[string]string{"app/foo.go": c18Foo, "app/wire.go": c18Wire("func InitSvc() *Svc {\n\tpanic(wire.Build(NewCfg, NewSvc))\n}\n")}},
		{"A2", true, map[string]string{"app/foo.go": c18Foo, "app/wire.go": c18Wire("func InitSvc() (*Svc, func(), error) {\n\tpanic(wire.Build(NewCfg, NewSvcE))\n}\n")}},
		{"A3", true, map[string]string{"app/foo.go": c18Foo, "app/wire.go": c18Wire("func InitSvc() *Svc {\n\tpanic(wire.Build(wire.Value(Cfg{N: helper()*0 + 3}.N), wire.Struct(new(Svc), \"M\")))\n}\n\nfunc helper() int { return 42 }\n\nvar keep = helper\n")}},
		{"R1", false, map[string]string{"app/foo.go": c18Foo, "app/wire.go": c18Wire("func InitSvc() *Svc {\n\tpanic(wire.Build(NewSvc))\n}\n")}},
		// wire imported through a raw string literal, other providers
		{"A4", true, map[string]string{"app/foo.go": c18Foo, "app/wire.go": strings.Replace(c18Wire("func InitSvc() *Svc {\n\tpanic(wire.Build(NewCfg, NewM, wire.Struct(new(Svc), \"C\", \"M\")))\n}\n"), "\"github.com/google/wire\"", "`github.com/google/wire`", 1)}},
		{"R2", false, map[string]string{"app/foo.go": c18Foo, "app/wire.go": c18Wire("func InitSvc() *Svc {\n\tx := NewCfg()\n\t_ = x\n\tpanic(wire.Build(NewCfg, NewSvc))\n}\n")}},
	}
}

const (
	consNew = "//go:build !wireinject\n"
	consOld = "//+build !wireinject\n"
)

func checkC18(c *h.Check) {
	thorough := c.Tier == "thorough"
	variants := c18Variants()
	// A3 uses a call inside wire.Value which wire must refuse; keep it simple: a plain value
	variants[2].files["app/wire.go"] = c18Wire("func InitSvc() *Svc {\n\tpanic(wire.Build(wire.Value(7), wire.Struct(new(Svc), \"M\")))\n}\n\nfunc helper() int { return 42 }\n\nvar keep = helper\n")
	if !thorough {
		// quick: A1, A2, R1, A3, A4 (R2 is left to the thorough tier)
		variants = []srcVariant{variants[0], variants[1], variants[3], variants[2], variants[4]}
	}
	ex := &h.FSExplorer{S: c.S, ModPath: "example.com/m"}
	const out = "app/wire_gen.go"
	const outP = "app/p_wire_gen.go"
	// Fresh(v): what a pristine checkout of variant v gets.
	fresh := map[string]string{}
	{
		dirs := map[string]h.Tree{}
		for _, v := range variants {
			if !v.accepted {
				continue
			}
			d := c.S.Dir("fresh")
			h.WriteFiles(d, h.ModuleFiles(ex.ModPath))
			h.WriteFiles(d, v.files)
			r := h.RunLimited(d, h.BaseEnv("GOCACHE="+c.S.GoCache), 60e9, h.WireMemKB, c.S.Wire, "gen", "./...")
			t := h.ReadTree(d)
			if r.Exit != 0 {
				c.Internalf("fresh generation of variant %s failed: exit %d\n%s", v.name, r.Exit, r.Stderr)
				return
			}
			// exit 0 without an output file is taken at face value: "what a fresh checkout gets" is then no file,
			// and every history must end in the same state (a stale file left behind is reported as not-fresh)
			fresh[v.name] = t[out]
			dirs[v.name] = t
		}
		if fresh["A1"] == fresh["A2"] {
			c.Internalf("variants A1 and A2 generate identical output")
		}
	}
	byName := map[string]srcVariant{}
	for _, v := range variants {
		byName[v.name] = v
	}
	srcPaths := []string{"app/foo.go", "app/wire.go"}
	damage := func(name, content string) h.FSOp {
		return h.FSOp{Name: "damage:" + name, Edit: func(t h.Tree) (h.Tree, bool) {
			t[out] = content
			return t, true
		}}
	}
	ex.Ops = func(s *h.FSState) []h.FSOp {
		var ops []h.FSOp
		for _, v := range variants {
			v := v
			if v.name == s.Meta.(string) {
				continue
			}
			ops = append(ops, h.FSOp{Name: "switch:" + v.name, Edit: func(t h.Tree) (h.Tree, bool) {
				for _, p := range srcPaths {
					delete(t, p)
				}
				for p, cnt := range v.files {
					t[p] = cnt
				}
				return t, true
			}})
		}
		ops = append(ops,
			h.FSOp{Name: "gen", Argv: []string{"gen", "./..."}},
			h.FSOp{Name: "diff", Argv: []string{"diff", "./..."}},
			h.FSOp{Name: "check", Argv: []string{"check", "./..."}},
		)
		ops = append(ops, h.FSOp{Name: "gen-in-dir", Argv: []string{"gen"}, Dir: "app"})
		if _, has := s.Tree[outP]; thorough || !has {
			// quick tier: one prefixed generation per history (then the plain output must still be produced as before)
			ops = append(ops, h.FSOp{Name: "gen-prefix", Argv: []string{"gen", "-output_file_prefix", "p_", "./..."}})
		}
		if _, ok := s.Tree[out]; ok {
			ops = append(ops, h.FSOp{Name: "delete", Edit: func(t h.Tree) (h.Tree, bool) { delete(t, out); return t, true }})
		}
		cur := s.Tree[out]
		edited := cur + "\n// hand edit\nfunc handEdited() {}\n"
		if cur == "" {
			edited = consNew + "\npackage app\n\nfunc handEdited() {}\n"
		}
		if !strings.Contains(cur, "handEdited") {
			ops = append(ops, damage("hand-edited", edited))
		}
		// damage that differs from the current output only in white space / length
		if cur != "" && !strings.Contains(cur, "\r") && strings.HasSuffix(cur, "}\n") && strings.HasPrefix(cur, "// Code generated by Wire") && !strings.Contains(cur, "FIXME") {
			ops = append(ops,
				damage("crlf-copy", strings.ReplaceAll(cur, "\n", "\r\n")),
				damage("no-final-newline", strings.TrimSuffix(cur, "\n")),
				damage("blank-tail", cur+"\n\n"),
				damage("trailer-comment", cur+"// trailing comment\n"),
				damage("comment-above-marker", "// FIXME: reviewed by hand\n\n"+cur),
				// the "Code generated" line is lost, the rest (constraint included) stays
				damage("first-line-removed", cur[strings.Index(cur, "\n")+1:]),
			)
			// a truncated copy, as long as the generated build constraint survives the cut
			if half := cur[:len(cur)/2]; strings.Contains(half, "//go:build !wireinject\n") {
				ops = append(ops, damage("truncated-half", half))
			}
		}
		ops = append(ops,
			damage("noncompiling", consNew+"\npackage app\n\nfunc InitSvc( {\n"),
			damage("garbage-old-syntax", consOld+"\n%%% this is not Go at all {{{ ]]] unterminated\n"),
			damage("empty", consNew+"\n"),
			damage("otherpkg", consNew+"\npackage other\n\nfunc InitSvc() {}\n"),
		)
		if thorough {
			ops = append(ops,
				damage("noncompiling-old-syntax", consOld+"\npackage app\n\nfunc InitSvc( {\n"),
				damage("garbage", consNew+"\n%%% this is not Go at all {{{ ]]] unterminated\n"),
				damage("stale-compiles", consNew+"\npackage app\n\nfunc InitSvc() *Svc { return nil }\n"),
				damage("both-syntaxes-redeclare", consNew+consOld+"\npackage app\n\ntype Svc struct{}\n"),
			)
		}
		return ops
	}
	ex.Next = func(s *h.FSState, op h.FSOp, after h.Tree) interface{} {
		if strings.HasPrefix(op.Name, "switch:") {
			return strings.TrimPrefix(op.Name, "switch:")
		}
		return s.Meta
	}
	ex.Key = func(s *h.FSState) string { return s.Meta.(string) }
	ex.Invariant = func(s *h.FSState, op h.FSOp, o *h.FSOutcome, after h.Tree, dir string, run func(argv ...string) h.FSOutcome) []h.Violation {
		var vs []h.Violation
		v := byName[s.Meta.(string)]
		bad := func(sym, format string, a ...interface{}) {
			vs = append(vs, h.Violation{Symptom: sym, Detail: fmt.Sprintf("variant %s, op %s: ", v.name, op.Name) + fmt.Sprintf(format, a...)})
		}
		if o.Crashed || o.TimedOut {
			bad("crash", "wire crashed or hung:\n%s", clip(o.Stderr, 1200))
			return vs
		}
		d := s.Tree.Diff(after)
		switch {
		case strings.HasPrefix(op.Name, "gen"):
			target := out
			if op.Name == "gen-prefix" {
				target = outP
			}
			if v.accepted {
				if o.Exit != 0 {
					bad("history-dependent-verdict", "gen failed (exit %d) although the current sources are accepted from a fresh checkout:\n%s", o.Exit, clip(o.Stderr, 1200))
					return vs
				}
				if after[target] != fresh[v.name] {
					bad("not-fresh", "after a successful gen %s differs from what a fresh checkout gets", target)
				}
				for _, x := range d {
					if !strings.HasSuffix(x, ":"+target) {
						bad("footprint", "gen changed %s", x)
					}
				}
				// idempotence and diff
				o2 := run(op.Argv...)
				t2 := h.ReadTree(dir)
				if o2.Exit != 0 || len(after.Diff(t2)) > 0 {
					bad("not-idempotent", "second gen: exit %d, changes %v", o2.Exit, after.Diff(t2))
				}
				if op.Name == "gen" {
					o3 := run("diff", "./...")
					t3 := h.ReadTree(dir)
					if o3.Exit != 0 {
						bad("diff-after-gen", "diff immediately after gen exits %d:\n%s", o3.Exit, clip(o3.Stdout+o3.Stderr, 800))
					}
					if len(t2.Diff(t3)) > 0 {
						bad("diff-writes", "diff changed the tree: %v", t2.Diff(t3))
					}
				}
			} else {
				if o.Exit == 0 {
					bad("accepted-rejected-variant", "gen succeeded on a variant that a fresh checkout rejects")
				}
				if len(d) > 0 {
					bad("failed-gen-writes", "failed gen changed the tree: %v", d)
				}
			}
		default: // diff, check
			if len(d) > 0 {
				bad("readonly-command-writes", "%s changed the tree: %v", op.Name, d)
			}
			if op.Name == "check" {
				if v.accepted && o.Exit != 0 {
					bad("history-dependent-verdict", "check failed (exit %d) on accepted sources:\n%s", o.Exit, clip(o.Stderr, 800))
				}
				if !v.accepted && o.Exit == 0 {
					bad("history-dependent-verdict", "check succeeded on rejected sources")
				}
			}
			if op.Name == "diff" {
				want := 1
				if !v.accepted {
					want = 2
				} else if s.Tree[out] == fresh[v.name] {
					want = 0
				}
				if o.Exit != want {
					bad("diff-status", "diff exit %d, want %d", o.Exit, want)
				}
			}
		}
		return vs
	}
	var initial []*h.FSState
	for _, v := range variants {
		initial = append(initial, &h.FSState{Tree: h.Tree(v.files).Clone(), Meta: v.name, Path: []string{"init:" + v.name}})
	}
	if !thorough {
		ex.MaxDepth = 0
	}
	if strings.HasPrefix(c.Only, "init2:") {
		c18Multi(c, thorough)
		c.Coverage["states"], c.Coverage["transitions"], c.Coverage["traces_validated_against_impl"] = 1, 1, 1
		c.Samples = append(c.Samples, c.Only)
		return
	}
	if c.Only != "" {
		// replay of one recorded history, without the explorer
		rvs, err := ex.Replay(initial, c.Only)
		if err != nil {
			c.Internalf("replay: %v", err)
		}
		for _, v := range rvs {
			c.AddViolation(v, nil, map[string]interface{}{"history": v.CaseID})
		}
		c.Coverage["states"], c.Coverage["transitions"], c.Coverage["traces_validated_against_impl"] = 1, 1, 1
		c.Samples = append(c.Samples, c.Only)
		return
	}
	vs := ex.Explore(initial, c.Deadline)
	for _, v := range vs {
		c.AddViolation(v, nil, map[string]interface{}{"history": v.CaseID})
	}
	ms, mt, mi, mclosed, _ := c18Multi(c, thorough)
	if !ex.Closed || !mclosed {
		c.Exhaustive = false
	}
	c.Coverage["two_package_exploration"] = map[string]interface{}{"states": ms, "transitions": mt, "wire_invocations": mi, "closure_reached": mclosed,
		"rule": "second explicit-state BFS to closure: packages app (imports lib and refers to lib's injector from ordinary code) and lib, each with its own injector file and output; operations: switch either package's injector file between accepted and rejected variants, gen ./... / ./app / ./lib, diff ./..., check ./..., delete or damage either output (non-compiling, stale but compiling; thorough adds garbage with the old constraint syntax and a hand edit). Invariants: gen's status and every file it (re)writes equal the fresh-checkout result of the named packages, whatever the other package's output looks like and whether the other package is accepted; outputs of packages not named and of rejected packages are untouched; second gen changes nothing; diff after gen ./... exits 0; check/diff statuses follow the current sources only"}
	c.Coverage["states"] = ex.States + ms
	c.Coverage["transitions"] = ex.Transitions + mt
	c.Coverage["traces_validated_against_impl"] = ex.Transitions + mt
	c.Coverage["wire_invocations_fs"] = ex.Invocations + mi
	c.Coverage["closure_reached"] = ex.Closed
	c.Coverage["deepest_state"] = ex.MaxDepthSeen
	c.Coverage["evaluations"] = ex.Transitions
	c.Coverage["distinct_nontrivial"] = ex.States
	names := []string{}
	for _, v := range variants {
		names = append(names, v.name)
	}
	c.Coverage["rule"] = fmt.Sprintf("explicit-state BFS to closure over module-tree states (state = full byte content of the tree, deduplicated by hash). Source variants %v; operations: switch to variant, gen (also from the package directory; thorough: with -output_file_prefix), diff, check, delete output, replace output by hand-edited / non-compiling / garbage / empty / wrong-package files and by white-space-only variants of the current output (CRLF copy, no final newline, blank tail, truncated half, trailing comment, first line removed) carrying the !wireinject constraint (old and new syntax). Invariants on every transition: successful gen => output == Fresh(variant) from a pristine checkout, only that file changed, second gen changes nothing, diff right after exits 0; gen's and check's verdict equals the fresh-checkout verdict; failed gen, diff and check leave the tree untouched; diff exits 0/1/2 as specified.", names)
	c.Samples = append(c.Samples, map[string]interface{}{"initial_state_files": variants[0].files, "fresh_output_A1": fresh["A1"], "example_history": "switch:A2 ; gen ; damage:noncompiling ; switch:R1 ; gen ; switch:A1 ; gen"})
	c.Assumptions = append(c.Assumptions, "wire keeps no state outside the module tree (GOCACHE holds no wire data), so a tree is a complete state", "damaged output files all carry the generated build constraint, as the statement requires")
	if ex.States < 30 && c.Only == "" {
		c.Internalf("vacuous: %d states", ex.States)
	}
}
