package props

import (
	"fmt"
	"regexp"
	"strings"

	"verif/internal/h"
)

func init() { register("C20", "model_checking", checkC20) }

const c20Defs = `package p

import (
	WIREIMPORT
)

type S struct {
	A int
	B string
}

type SP struct{ A *int }

type I interface{ M() }

type Impl struct{ N int }

func (Impl) M() {}

func (Impl) String() string { return "impl" }

type PImpl struct{}

func (*PImpl) M() {}

type G[T any] struct{ V T }

type Fn func() int

func NewInt() int       { return 1 }
func NewStr() string    { return "s" }
func NewS(a int, b string) S { return S{a, b} }
func NewImpl() Impl     { return Impl{} }
func NewPImpl() *PImpl  { return &PImpl{} }
func Gen[T any]() T     { var z T; return z }
func MakeSet() WIREQ.ProviderSet { return WIREQ.NewSet(NewInt) }
func TwoSets() (WIREQ.ProviderSet, WIREQ.ProviderSet) {
	return WIREQ.NewSet(NewInt), WIREQ.NewSet(NewStr)
}

var (
	SetVar    = WIREQ.NewSet(NewInt, NewStr)
	FuncVar   = NewInt
	NamedFn   Fn = NewInt
	IntVar    = 3
	StrVar    = "A"
	ImplVar   = Impl{N: 2}
	IfaceVar  I = Impl{N: 3}
	UninitSet WIREQ.ProviderSet
	PtrS      = &S{}
)

var A1, B1 = WIREQ.NewSet(NewInt), WIREQ.NewSet(NewStr)

var A2, B2 = TwoSets()

const Const = "A"

const IntConst = 7
`

type c20Case struct {
	id       string
	wireImp  int    // 0 normal, 1 alias w, 2 dot import
	result   string // injector result type text
	build    string // arguments of wire.Build (Q. stands for the wire qualifier)
	extraTop string // extra top-level declarations in wire.go
	body     string // full injector body override
	imports  string
	params   string // parameter list of the injector (default: none)
	files    map[string]string // further files of the case (other packages)
	twice    int // 1: a second injector with the same body; 2: both injectors use one named set holding the arguments
}

// c20OmitBadSets drops the deliberately ill-formed top-level set variables from the shared
// declarations (used when the family is reused for C19, where wire check legitimately reports them).
var c20OmitBadSets bool

func c20Render(cs c20Case) map[string]string {
	imp, q := "\"github.com/google/wire\"", "wire"
	switch cs.wireImp {
	case 1:
		imp, q = "w \"github.com/google/wire\"", "w"
	case 2:
		imp, q = ". \"github.com/google/wire\"", ""
	}
	sub := func(s string) string {
		if q == "" {
			s = strings.ReplaceAll(s, "WIREQ.", "")
			s = strings.ReplaceAll(s, "Q.", "")
		} else {
			s = strings.ReplaceAll(s, "WIREQ.", q+".")
			s = strings.ReplaceAll(s, "Q.", q+".")
		}
		return strings.ReplaceAll(s, "WIREIMPORT", imp)
	}
	result := cs.result
	if result == "" {
		result = "S"
	}
	body := cs.body
	if body == "" {
		body = "\tpanic(Q.Build(" + cs.build + "))\n"
	}
	extraImp := ""
	if cs.imports != "" {
		extraImp = "\t" + cs.imports + "\n"
	}
	extraTop := cs.extraTop
	if cs.twice == 2 && cs.body == "" {
		extraTop += "var Shared = Q.NewSet(" + cs.build + ")\n"
		body = "\tpanic(Q.Build(Shared))\n"
	}
	w := "//go:build wireinject\n// +build wireinject\n\npackage p\n\nimport (\n\t" + imp + "\n" + extraImp + ")\n\n" + extraTop + "\nfunc Init(" + cs.params + ") " + result + " {\n" + body + "}\n"
	if cs.twice > 0 {
		w += "\nfunc Init2(" + cs.params + ") " + result + " {\n" + body + "}\n"
	}
	defs := c20Defs
	if c20OmitBadSets {
		defs = strings.Replace(defs, "\tUninitSet WIREQ.ProviderSet\n", "", 1)
		defs = strings.Replace(defs, "var A2, B2 = TwoSets()\n", "", 1)
	}
	out := map[string]string{"defs.go": sub(defs), "wire.go": sub(w)}
	for p, cnt := range cs.files {
		out[p] = cnt
	}
	return out
}

var rePositioned = regexp.MustCompile(`(?m)^[^\s:]+\.go:\d+:\d+: `)

func c20Cases() []c20Case {
	var out []c20Case
	add := func(id string, cs c20Case) {
		for imp := 0; imp < 3; imp++ {
			c := cs
			c.wireImp = imp
			c.id = fmt.Sprintf("C20/%s/wire=%s", id, []string{"plain", "alias", "dot"}[imp])
			out = append(out, c)
		}
	}
	rest := "NewInt, NewStr, NewS"
	// 1. argument forms of wire.Build / wire.NewSet
	forms := []struct{ name, expr string }{
		{"func", "NewInt"}, {"paren-func", "(NewStr)"}, {"funcvar", "FuncVar"}, {"namedfuncvar", "NamedFn"}, {"setvar", "SetVar"},
		{"paren-setvar", "(SetVar)"}, {"intvar", "IntVar"}, {"strvar", "StrVar"}, {"const", "Const"}, {"intconst", "IntConst"},
		{"nil", "nil"}, {"int-literal", "3"}, {"string-literal", "\"x\""}, {"addr-composite", "&S{}"}, {"new-struct", "new(S)"},
		{"nil-ptr-conv", "(*S)(nil)"}, {"composite", "Impl{}"}, {"composite-struct", "SP{}"}, {"method-value", "ImplVar.M"}, {"method-expr", "Impl.M"},
		{"func-literal", "func() float64 { return 1 }"}, {"generic-inst", "Gen[float64]"}, {"call-returning-set", "MakeSet()"},
		{"uninit-set", "UninitSet"}, {"multi-name-a", "A1"}, {"multi-name-b", "B1"}, {"multi-value-a", "A2"}, {"multi-value-b", "B2"},
		{"ptr-var", "PtrS"}, {"iface-var", "IfaceVar"}, {"generic-composite", "G[int]{}"}, {"anon-struct", "struct{ X int }{}"},
		{"slice-literal", "[]int{1}"}, {"map-literal", "map[string]int{}"}, {"index", "[]int{1}[0]"}, {"builtin-call", "len(\"x\")"},
		{"conversion", "float64(3)"}, {"type-assert", "IfaceVar.(Impl)"}, {"unary", "-IntVar"}, {"binary", "IntVar + 1"}, {"deref", "*PtrS"},
	}
	for _, f := range forms {
		add("build-arg/"+f.name, c20Case{build: f.expr + ", " + rest})
		add("newset-arg/"+f.name, c20Case{build: "Q.NewSet(" + f.expr + "), " + rest})
		// the same (possibly invalid) object reached twice: by two injectors, and through one named set two injectors use
		for tw := 1; tw <= 2; tw++ {
			out = append(out, c20Case{id: fmt.Sprintf("C20/build-arg-twice/%s/mode=%d", f.name, tw), build: f.expr + ", " + rest, twice: tw})
		}
	}
	// 2. wire.Struct first argument and field-name arguments
	structFirst := []struct{ name, expr string }{
		{"new", "new(S)"}, {"addr", "&S{}"}, {"nilconv", "(*S)(nil)"}, {"ptrvar", "PtrS"}, {"new-ptr", "new(*S)"}, {"new-int", "new(int)"},
		{"new-anon", "new(struct{ A int })"}, {"new-generic", "new(G[int])"}, {"value", "S{}"}, {"nil", "nil"}, {"paren-new", "(new(S))"}, {"new-paren-type", "new((S))"},
	}
	names := []struct{ name, expr string }{
		{"literal", "\"A\""}, {"raw", "`A`"}, {"const", "Const"}, {"concat", "\"A\" + \"\""}, {"var", "StrVar"}, {"star", "\"*\""}, {"raw-star", "`*`"},
		{"unknown", "\"Nope\""}, {"empty", "\"\""}, {"paren", "(\"A\")"}, {"none", ""}, {"two", "\"A\", \"B\""}, {"dup", "\"A\", \"A\""},
	}
	for _, sf := range structFirst {
		for _, nm := range names {
			if sf.name != "new" && nm.name != "literal" && nm.name != "star" {
				continue
			}
			args := sf.expr
			if nm.expr != "" {
				args += ", " + nm.expr
			}
			add(fmt.Sprintf("struct/%s/%s", sf.name, nm.name), c20Case{build: "Q.Struct(" + args + "), NewInt, NewStr"})
		}
	}
	// 3. wire.FieldsOf
	fieldsFirst := append(append([]struct{ name, expr string }{}, structFirst...), struct{ name, expr string }{"new-ptr-ptr", "new(**S)"})
	for _, sf := range fieldsFirst {
		for _, nm := range names {
			if sf.name != "new" && sf.name != "new-ptr" && nm.name != "literal" {
				continue
			}
			args := sf.expr
			if nm.expr != "" {
				args += ", " + nm.expr
			}
			add(fmt.Sprintf("fieldsof/%s/%s", sf.name, nm.name), c20Case{result: "int", build: "Q.FieldsOf(" + args + "), NewS, NewStr"})
		}
	}
	// 3b. field-name lists longer than the struct (repeated names), in wire.Struct and wire.FieldsOf
	for _, nl := range []struct{ name, list string }{
		{"a-b-a", `"A", "B", "A"`}, {"a-a", `"A", "A"`}, {"a-b-b-a", `"A", "B", "B", "A"`}, {"b-b-b", `"B", "B", "B"`}, {"star-a-b-a", `"*", "A", "B", "A"`},
	} {
		add("struct/repeated-names/"+nl.name, c20Case{build: "Q.Struct(new(S), " + nl.list + "), NewInt, NewStr"})
		add("fieldsof/repeated-names/"+nl.name, c20Case{result: "int", build: "Q.FieldsOf(new(S), " + nl.list + "), NewS, NewStr"})
	}
	// 3c. objects of a package that does not import wire, written where a provider or a set is expected
	plain := map[string]string{"plain/plain.go": "package plain\n\nvar Default = load()\n\nvar FnVar = load\n\nconst Limit = 10\n\ntype T struct{ N int }\n\nvar Ptr = &T{}\n\nfunc load() int { return 3 }\n\nfunc New() T { return T{} }\n"}
	for _, pv := range []struct{ name, expr string }{
		{"var", "plain.Default"}, {"func-var", "plain.FnVar"}, {"const", "plain.Limit"}, {"ptr-var", "plain.Ptr"}, {"type", "plain.T{}"}, {"func", "plain.New"}, {"stdlib-var", "os.Stdout"},
	} {
		cs := c20Case{build: pv.expr + ", " + rest, imports: "\"{{ROOT}}/plain\"", files: plain}
		if pv.name == "stdlib-var" {
			cs.imports, cs.files = "\"os\"", nil
		}
		add("foreign-object/"+pv.name, cs)
		cs.build = "Q.NewSet(" + pv.expr + "), " + rest
		add("foreign-object-in-newset/"+pv.name, cs)
	}
	// 4. wire.Bind
	bindA := []struct{ name, expr string }{{"new", "new(I)"}, {"nilconv", "(*I)(nil)"}, {"addr-var", "&IfaceVar"}, {"nil", "nil"}, {"new-nonface", "new(S)"}, {"value", "IfaceVar"}, {"new-any", "new(interface{})"}}
	bindB := []struct{ name, expr string }{{"new", "new(Impl)"}, {"nilconv", "(*Impl)(nil)"}, {"addr", "&ImplVar"}, {"addr-composite", "&Impl{}"}, {"nil", "nil"}, {"new-ptr", "new(*PImpl)"}, {"value", "ImplVar"}, {"new-iface", "new(I)"}}
	for _, a := range bindA {
		for _, b := range bindB {
			add(fmt.Sprintf("bind/%s/%s", a.name, b.name), c20Case{result: "I", build: "Q.Bind(" + a.expr + ", " + b.expr + "), NewImpl, NewPImpl"})
		}
	}
	// 5. wire.Value / wire.InterfaceValue
	vals := []struct{ name, expr, typ string }{
		{"int", "3", "int"}, {"neg", "-3", "int"}, {"string", "\"v\"", "string"}, {"composite", "S{A: 1}", "S"}, {"addr", "&S{A: 1}", "*S"},
		{"var", "IntVar", "int"}, {"ptrvar", "PtrS", "*S"}, {"nil-ptr", "(*S)(nil)", "*S"}, {"call", "NewInt()", "int"}, {"builtin", "len(\"abc\")", "int"},
		{"named-func-call", "NamedFn()", "int"}, {"conversion", "float64(IntConst)", "float64"}, {"func-literal", "func() int { return 1 }", "func() int"},
		{"iface", "IfaceVar", "I"}, {"slice", "[]int{1}", "[]int"}, {"array", "[...]int{1, 2}", "[2]int"}, {"map", "map[string]int{\"a\": 1}", "map[string]int"},
		{"index", "[]int{5}[0]", "int"}, {"field", "ImplVar.N", "int"}, {"method-value", "ImplVar.M", "func()"}, {"anon-struct", "struct{ X int }{1}", "struct{ X int }"},
		{"generic", "G[int]{V: 1}", "G[int]"}, {"chan-nil", "(chan int)(nil)", "chan int"}, {"deref", "*PtrS", "S"}, {"paren", "(3)", "int"}, {"type-assert", "IfaceVar.(Impl)", "Impl"},
		{"unsafe", "unsafe.Pointer(nil)", "unsafe.Pointer"},
	}
	for _, v := range vals {
		c := c20Case{result: v.typ, build: "Q.Value(" + v.expr + ")"}
		if v.name == "unsafe" {
			c.imports = "\"unsafe\""
		}
		add("value/"+v.name, c)
	}
	ivals := []struct{ name, a, b string }{
		{"ok", "new(I)", "Impl{}"}, {"ptr-impl", "new(I)", "&PImpl{}"}, {"not-impl", "new(I)", "S{}"}, {"nil", "new(I)", "nil"},
		{"nilconv", "(*I)(nil)", "Impl{}"}, {"non-iface", "new(S)", "S{}"}, {"value-first", "IfaceVar", "Impl{}"},
	}
	for _, v := range ivals {
		args := v.a
		if v.b != "" {
			args += ", " + v.b
		}
		add("ifacevalue/"+v.name, c20Case{result: "I", build: "Q.InterfaceValue(" + args + ")"})
	}
	// empty interfaces: everything (including the untyped nil) implements them
	for _, v := range []struct{ name, a, b, res string }{
		{"any-nil", "new(AnyT)", "nil", "AnyT"}, {"any-int", "new(AnyT)", "3", "AnyT"}, {"any-impl", "new(AnyT)", "Impl{}", "AnyT"},
		{"any-nil-ptr", "new(AnyT)", "(*S)(nil)", "AnyT"}, {"anon-any-nil", "new(interface{})", "nil", "interface{}"}, {"anon-any-string", "new(interface{})", "\"s\"", "interface{}"},
		{"any-paren-nil", "new(AnyT)", "(nil)", "AnyT"},
	} {
		add("ifacevalue/"+v.name, c20Case{result: v.res, build: "Q.InterfaceValue(" + v.a + ", " + v.b + ")", extraTop: "type AnyT interface{}\n"})
	}
	// 6. injector result kinds, error path forces the zero value expression
	kinds := []struct{ name, typ, imp string }{
		{"bool", "bool", ""}, {"int", "int", ""}, {"float", "float64", ""}, {"complex", "complex128", ""}, {"string", "string", ""}, {"named-struct", "S", ""},
		{"ptr", "*S", ""}, {"slice", "[]S", ""}, {"array", "[2]S", ""}, {"map", "map[string]S", ""}, {"chan", "chan S", ""}, {"func", "func() S", ""},
		{"iface", "I", ""}, {"any", "interface{}", ""}, {"anon-struct", "struct{ X int }", ""}, {"generic", "G[int]", ""}, {"unsafe-pointer", "unsafe.Pointer", "\"unsafe\""},
		{"error", "error", ""}, {"uintptr", "uintptr", ""}, {"named-func", "Fn", ""}, {"rune", "rune", ""},
	}
	// named types whose names begin with multi-byte upper-case letters (local names are derived from them)
	for _, u := range []string{"Élan", "ÉCole", "ÉÀ", "Ωmega", "XÉlan"} {
		add("result-kind/unicode-"+u, c20Case{result: "(" + u + ", error)", build: "ProvU", extraTop: fmt.Sprintf("type %s struct{ X int }\n\nfunc ProvU() (%s, error) { return %s{}, nil }\n", u, u, u)})
		add("param-kind/unicode-"+u, c20Case{result: "UR", build: "ProvUR", extraTop: fmt.Sprintf("type %s struct{ X int }\n\ntype UR struct{ X int }\n\nfunc ProvUR(u *%s) UR { return UR{u.X} }\n", u, u), params: "*" + u})
	}
	for _, k := range kinds {
		prov := fmt.Sprintf("func ProvK() (%s, error) {\n\tvar z %s\n\treturn z, nil\n}\n", k.typ, k.typ)
		add("result-kind/"+k.name, c20Case{result: "(" + k.typ + ", error)", build: "ProvK", extraTop: prov, imports: k.imp})
	}
	// 7. injector bodies
	bodies := []struct{ name, body string }{
		{"plain-call-and-return", "\tQ.Build(" + rest + ")\n\treturn S{}\n"},
		{"two-builds", "\tQ.Build(" + rest + ")\n\tQ.Build(" + rest + ")\n\treturn S{}\n"},
		{"statement-before", "\tx := 1\n\t_ = x\n\tpanic(Q.Build(" + rest + "))\n"},
		{"build-in-if", "\tif true {\n\t\tpanic(Q.Build(" + rest + "))\n\t}\n\treturn S{}\n"},
		{"build-assigned", "\t_ = Q.Build(" + rest + ")\n\treturn S{}\n"},
		{"empty-build", "\tpanic(Q.Build())\n"},
		{"panic-two-args-shape", "\tpanic(Q.Build(" + rest + "))\n\treturn S{}\n"},
		{"return-first", "\treturn S{}\n\tpanic(Q.Build(" + rest + "))\n"},
		{"defer", "\tdefer func() {}()\n\tpanic(Q.Build(" + rest + "))\n"},
	}
	for _, b := range bodies {
		add("body/"+b.name, c20Case{body: b.body})
	}
	// ordinary functions in the package whose body is a top-level panic(<call>) that is not wire.Build
	for _, pc := range []struct{ name, arg string }{
		{"method-call", "ImplVar.String()"}, {"func-value-call", "FuncVar()"}, {"builtin-call", "len(StrVar)"}, {"conversion", "string(rune(IntVar))"},
		{"named-conversion", "Fn(nil)"}, {"paren-call", "(NewStr)()"}, {"index-call", "[]func() int{NewInt}[0]()"}, {"concat", "StrVar + \"!\""}, {"literal", "\"boom\""},
		{"two-stmts", "NewStr()); panic(\"again\""},
	} {
		add("helper-panic/"+pc.name, c20Case{build: rest, extraTop: "func helper() {\n\tpanic(" + pc.arg + ")\n}\n"})
	}
	// parenthesised callees of the marker functions
	for _, m := range []struct{ name, call, result string }{
		{"newset", "(Q.NewSet)(NewInt), NewStr, NewS", "S"},
		{"bind", "(Q.Bind)(new(I), new(Impl)), NewImpl", "I"},
		{"value", "(Q.Value)(3), NewStr, NewS", "S"},
		{"ifacevalue", "(Q.InterfaceValue)(new(I), Impl{})", "I"},
		{"struct", "(Q.Struct)(new(S), \"*\"), NewInt, NewStr", "S"},
		{"fieldsof", "(Q.FieldsOf)(new(S), \"A\"), NewS, NewStr", "int"},
	} {
		add("paren-callee/"+m.name, c20Case{result: m.result, build: m.call})
	}
	// ill-formed graphs: a missing leaf under a diamond / needed by siblings in either order, two missing types,
	// a cycle next to a missing type, an unused item next to a missing type
	gdefs := "type (\n\tGX struct{}\n\tGY struct{}\n\tGA struct{}\n\tGB struct{}\n\tGC struct{}\n)\n\nfunc NewGA(x GX) *GA { return nil }\nfunc NewGB(x GX) *GB { return nil }\nfunc NewGB2(y *GY, a *GA) *GB { return nil }\nfunc NewGC(a *GA, b *GB) GC { return GC{} }\nfunc NewGC2(b *GB, a *GA) GC { return GC{} }\nfunc NewGX(c GC) GX { return GX{} }\n"
	for _, g := range []struct{ name, build string }{
		{"diamond-missing-leaf", "NewGA, NewGB, NewGC"}, {"diamond-missing-leaf-swapped", "NewGA, NewGB, NewGC2"},
		{"two-missing-sibling-first", "NewGA, NewGB2, NewGC"}, {"two-missing-sibling-last", "NewGA, NewGB2, NewGC2"},
		{"cycle-through-leaf", "NewGA, NewGB, NewGC, NewGX"}, {"missing-and-unused", "NewGA, NewGB, NewGC, NewInt"},
		{"only-consumer", "NewGC"}, {"missing-ptr-form", "NewGB2, NewGC, Q.Struct(new(GA), \"*\"), Q.Struct(new(GY), \"*\"), Q.Value(GX{})"},
	} {
		add("graph/"+g.name, c20Case{result: "GC", build: g.build, extraTop: gdefs})
	}
	// package-level variables of type wire.ProviderSet that are not initialised by wire.NewSet (used or not by the injector)
	for _, v := range []struct{ name, decl, use string }{
		{"composite-literal", "var LitSet = Q.ProviderSet{}\n", ""},
		{"composite-literal-used", "var LitSet = Q.ProviderSet{}\n", "LitSet, "},
		{"zero-declared", "var ZeroSet Q.ProviderSet\n", ""},
		{"pointer-deref", "var ptrSet = new(Q.ProviderSet)\n\nvar DerefSet = *ptrSet\n", ""},
		{"func-result", "var CallSet = MakeSet()\n", ""},
		{"alias-of-valid", "var AliasSet = SetVar\n", "AliasSet, NewS"},
		{"paren-newset", "var ParenSet = (Q.NewSet(NewInt))\n", ""},
		{"conversion", "type mySet = Q.ProviderSet\n\nvar ConvSet = mySet(Q.NewSet(NewInt))\n", ""},
	} {
		if c20OmitBadSets && v.name != "alias-of-valid" && v.name != "paren-newset" {
			continue // an ill-formed top-level set by construction: wire check must report it, which is not a disagreement with gen
		}
		build := v.use + rest
		if v.name == "alias-of-valid" {
			build = v.use
		}
		add("set-variable/"+v.name, c20Case{build: build, extraTop: v.decl})
	}
	// generic injector
	out = append(out, c20Case{id: "C20/generic-injector", extraTop: "", body: "\tpanic(wire.Build(NewInt, NewStr, NewS))\n", result: "S"})
	return out
}

func checkC20(c *h.Check) {
	cases := c20Cases()
	var hc []*h.Case
	outcomes := tally{}
	for _, cs := range cases {
		if c20OmitBadSets && (strings.Contains(cs.build, "UninitSet") || strings.Contains(cs.build, "A2") || strings.Contains(cs.build, "B2")) {
			continue
		}
		files := c20Render(cs)
		id := cs.id
		// wire recognises an injector only by a top-level wire.Build (or panic(wire.Build)) statement;
		// other body shapes are ordinary functions, and exit 0 without output is then legitimate
		hasInjector := cs.body == ""
		hcase := &h.Case{ID: id, Files: files, Build: true}
		hcase.Judge = func(r *h.Result) []h.Violation {
			if r.Crashed {
				return []h.Violation{{Symptom: "crash", Detail: "wire crashed:\n" + clip(r.Raw, 1800)}}
			}
			if r.TimedOut {
				return []h.Violation{{Symptom: "timeout", Detail: "wire did not terminate"}}
			}
			if r.LoadFailed {
				return nil // not a type-correct package: outside the property (counted as skipped)
			}
			root := r.Root()
			if root.Failed {
				if !rePositioned.MatchString(strings.Join(root.Diags, "\n")) {
					return []h.Violation{{Symptom: "no-position", Detail: "generation failed but no diagnostic carries a file:line:column position:\n" + clip(strings.Join(root.Diags, "\n"), 1200)}}
				}
				if _, wrote := r.GenSrc[""]; wrote {
					return []h.Violation{{Symptom: "output-on-failure", Detail: "wire_gen.go written although generation failed"}}
				}
				return nil
			}
			if hasInjector && !root.Wrote {
				return []h.Violation{{Symptom: "silent", Detail: "wire reported neither success nor an error for a package with an injector\n" + clip(r.Raw, 600)}}
			}
			if r.CompileErr != "" {
				return []h.Violation{{Symptom: "compile-error", Detail: "wire reported success but the package does not compile:\n" + clip(r.CompileErr, 1000) + "\n" + clip(r.GenSrc[""], 1500)}}
			}
			return nil
		}
		genJudge := hcase.Judge
		hcase.Judge = func(r *h.Result) []h.Violation {
			vs := genJudge(r)
			if r.LoadFailed || r.Crashed || r.TimedOut {
				return vs
			}
			// the same package under wire check and wire show: no panic, and a failure carries a position
			for _, ro := range []struct {
				name  string
				ran   bool
				diags []string
			}{{"check", r.CheckRan, r.CheckDiags}, {"show", r.ShowRan, r.ShowDiags}} {
				if !ro.ran || len(ro.diags) == 0 {
					continue
				}
				all := strings.Join(ro.diags, "\n")
				if strings.Contains(all, "CRASH:") {
					vs = append(vs, h.Violation{Symptom: ro.name + "-crash", Detail: "wire " + ro.name + " crashed or hung:\n" + clip(all, 1800)})
				} else if !rePositioned.MatchString(all) {
					vs = append(vs, h.Violation{Symptom: ro.name + "-no-position", Detail: "wire " + ro.name + " failed but no diagnostic carries a file:line:column position:\n" + clip(all, 1200)})
				}
			}
			return vs
		}
		if c.NoteProgram(files) {
			hc = append(hc, hcase)
		}
	}
	if !c.Collect {
		c.R.AlsoCheck, c.R.AlsoShow = true, true
	}
	results := c.JudgeAll(hc)
	if !c.Collect {
		c.R.AlsoCheck, c.R.AlsoShow = false, false
	}
	skipped := 0
	for _, r := range results {
		switch {
		case r == nil || r.NotRun:
		case r.Crashed:
			outcomes.inc("crashed")
		case r.LoadFailed:
			skipped++
			outcomes.inc("skipped-illtyped")
		case r.Root().Failed:
			outcomes.inc("diagnosed")
		default:
			outcomes.inc("accepted")
		}
	}
	c.Coverage["evaluations"] = len(hc)
	c.Coverage["distinct_nontrivial"] = c.DistinctPrograms() - skipped
	c.Coverage["states"] = c.DistinctPrograms()
	c.Coverage["transitions"] = len(hc)
	c.Coverage["traces_validated_against_impl"] = len(hc) - skipped
	c.Coverage["outcomes"] = outcomes.summary()
	c.Coverage["skipped_illtyped"] = skipped
	c.Coverage["rule"] = "every argument position of wire.Build / NewSet (41 expression forms), wire.Struct and wire.FieldsOf (12-13 first-argument spellings x 13 field-name spellings), wire.Bind (7 x 8 spellings), wire.Value (27 expression forms), wire.InterfaceValue (15, incl. empty interfaces fed with nil), 21 injector result kinds with an error-returning provider, 5 named types with multi-byte upper-case initials as result and as unnamed parameter (forces the zero-value expression), 9 injector body shapes; each with wire imported plainly, under an alias and with a dot import. Forms that Go's type checker rejects are counted as skipped. package-level wire.ProviderSet variables not initialised by wire.NewSet; objects mentioned twice; ill-formed graphs. Oracle: exit 0 with output written and compiling, or failure with no panic/timeout and at least one diagnostic carrying file:line:column inside the package, and no output; wire check and wire show on the same tree never panic, and when they fail a diagnostic carries a position. Distinct = distinct rendered source."
	if len(hc) > 0 && len(results) == len(hc) {
		i := len(hc) / 2
		c.Samples = append(c.Samples, map[string]interface{}{"case": hc[i].ID, "wire.go": hc[i].Files["wire.go"], "diagnostics": results[i].Root().Diags})
	}
	if c.Only == "" && (outcomes["diagnosed"] < 100 || outcomes["accepted"] < 50) {
		c.Internalf("vacuous: %v", outcomes)
	}
}
