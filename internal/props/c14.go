package props

import (
	"fmt"
	"sort"
	"strings"
	"unicode"

	"verif/internal/explore"
	"verif/internal/h"
	"verif/internal/ir"
)

func init() { register("C14", "model_checking", checkC14) }

// entities whose names are choice points, with their neutral names
var c14Entities = []struct{ id, neutral, class string }{
	{"pkgA", "alib", "pkg"}, {"pkgB", "blib", "pkg"}, {"pkgC", "clib", "pkg"}, {"pkgD", "dlib", "pkg"},
	{"tA", "Alpha", "libtype"}, {"tB", "Beta", "libtype"},
	{"tC", "Gamma", "type"}, {"tS", "Agg", "type"}, {"tV", "Val", "type"}, {"tR", "Res", "type"}, {"tP0", "ArgT", "type"}, {"tP1", "ArgU", "type"},
	{"fA", "NewAlpha", "libfunc"}, {"fB", "NewBeta", "libfunc"}, {"fC", "newGamma", "func"}, {"fR", "newRes", "func"},
	{"fieldA", "FA", "field"}, {"fieldB", "FB", "field"},
	{"param0", "arg0", "param"}, {"param1", "arg1", "param"},
	{"set", "BaseSet", "decl"},
	{"decl", "", "decl"}, // an extra package-level declaration in the injector's package ("" = none)
}

var c14Pools = map[string][]string{
	"pkg":     {"err", "cleanup", "gamma", "res", "alib", "agg", "val", "string", "len", "argT", "error", "nil"},
	"libtype": {"Err", "Cleanup", "Type", "Func", "Select", "String", "Error", "Nil", "Len", "Gamma", "Gamma2", "Alib", "URLThing", "Ünï", "Alpha2", "Beta"},
	"type":    {"Err", "Cleanup", "Cleanup2", "Type", "Func", "Select", "String", "Error", "Nil", "Len", "Alpha", "Alpha2", "Alpha1", "alib", "AlibAlpha", "err", "cleanup", "Ünï", "URLThing"},
	"libfunc": {"Err", "Cleanup", "NewGamma", "Alpha", "Init"},
	"func":    {"err", "cleanup", "gamma", "alpha", "alib", "newAlpha", "res", "agg"},
	"field":   {"Err", "Cleanup", "err", "cleanup", "Alpha"},
	"param":   {"err", "err2", "cleanup", "cleanup2", "dlib", "clib", "_", "-", "alpha", "gamma", "gamma2", "alib", "blib", "string", "len", "res", "agg", "val", "argT", "arg"},
	"decl":    {"err", "err2", "cleanup", "cleanup2", "cleanup3", "alpha", "alpha2", "gamma", "beta", "res", "agg", "agg2", "alib", "alib2", "blib", "_wireValValue", "_wireValValue2", "string", "len", "val", "argT", "argU", "arg", "true"},
}

// c14Program builds the fixed rich base under a naming.
func c14Program(n map[string]string, declKind int) (*ir.Program, bool) {
	b := ir.NewBuilder()
	p := b.Root
	la := &ir.Pkg{Name: n["pkgA"], Rel: "a/x"}
	lb := &ir.Pkg{Name: n["pkgB"], Rel: "b/y"}
	if n["relB"] != "" {
		lb.Rel = n["relB"]
	}
	if n["relA"] != "" {
		la.Rel = n["relA"]
	}
	tA := b.Leaf(la, n["tA"])
	tB := b.Leaf(lb, n["tB"])
	tC := b.Leaf(p, n["tC"])
	tV := b.Leaf(p, n["tV"])
	tR := b.Leaf(p, n["tR"])
	tP0 := b.Leaf(p, n["tP0"])
	tP1 := b.Int(p, n["tP1"])
	// the struct built by wire.Struct lives in a package of its own that nothing else mentions
	ld := &ir.Pkg{Name: n["pkgD"], Rel: "d/w"}
	tS := b.Agg(ld, n["tS"], &ir.Field{Name: n["fieldA"], T: tA}, &ir.Field{Name: n["fieldB"], T: tB})
	fA := &ir.Func{Pkg: la, Name: n["fA"], Out: tA, Err: true}
	fB := &ir.Func{Pkg: lb, Name: n["fB"], Params: []*ir.Type{tA}, Out: tB, Err: true, Cleanup: true}
	fC := &ir.Func{Pkg: p, Name: n["fC"], Params: []*ir.Type{tB, tP0}, Out: tC, Cleanup: true}
	fR := &ir.Func{Pkg: p, Name: n["fR"], Params: []*ir.Type{ir.Ptr(tS), tV, tP1, tC}, Out: tR, Err: true}
	set := &ir.Set{Pkg: p, Name: n["set"], Items: []*ir.Item{ir.FuncItem(fA), ir.FuncItem(fB)}}
	inj1 := &ir.Injector{Name: "Init", Params: []ir.Param{{Name: n["param0"], T: tP0}, {Name: n["param1"], T: tP1}}, Out: tR, Err: true, Cleanup: true,
		Items: []*ir.Item{ir.SetRef(set), ir.FuncItem(fC), ir.StructItem(tS, "*"), ir.ValueItem(tV, 9001), ir.FuncItem(fR)}}
	inj2 := &ir.Injector{Name: "Init2", Params: []ir.Param{{Name: n["param0"], T: tP0}}, Out: tC, Err: true, Cleanup: true,
		Items: []*ir.Item{ir.SetRef(set), ir.FuncItem(fC)}}
	if n["param0"] == "-" || n["param1"] == "-" {
		// unnamed parameter lists are all-or-nothing in Go
		inj1.Params[0].Name, inj1.Params[1].Name = "-", "-"
		inj2.Params[0].Name = "-"
	}
	// a third package that only a declaration copied from the injector file refers to, under the user's alias
	lc := &ir.Pkg{Name: n["pkgC"], Rel: "c/z"}
	inj1.After = "var copiedOnly = u_" + n["pkgC"] + ".Thing + 1\n\nfunc copiedFn() int { return u_" + n["pkgC"] + ".Twice(copiedOnly) }"
	prog := &ir.Program{Root: p, Injectors: []*ir.Injector{inj1, inj2}, Hist: 2, UserImportPrefix: "u_",
		InjectorImports: []*ir.Pkg{lc},
		ExtraFiles:      map[string]string{"c/z/z.go": "package " + n["pkgC"] + "\n\nvar Thing = 1\n\nfunc Twice(x int) int { return 2 * x }\n"}}
	if n["pkgC"] == n["pkgA"] || n["pkgC"] == n["pkgB"] || n["pkgC"] == n["pkgD"] {
		// the renderer numbers the aliases of same-named packages; keep the copied text in step with it
		return nil, false
	}
	if d := n["decl"]; d != "" {
		switch declKind {
		case 0:
			prog.ExtraDecl = "var " + d + " = 0"
		case 1:
			prog.ExtraDecl = "func " + d + "() {}"
		case 2:
			prog.ExtraDecl = "type " + d + " struct{}"
		case 3:
			prog.ExtraDecl = "const " + d + " = 1"
		}
	}
	// ---- Go-level well-typedness of the user's own program (predicted here; such namings are skipped) ----
	rootNames := map[string]int{}
	for _, k := range []string{"tC", "tV", "tR", "tP0", "tP1", "fC", "fR", "set", "decl"} {
		if n[k] != "" {
			rootNames[n[k]]++
		}
	}
	rootNames["copiedOnly"]++
	rootNames["copiedFn"]++
	rootNames["Init"]++
	rootNames["Init2"]++
	rootNames["VerifDrive"]++
	for _, k := range []string{"tC", "tV", "tR", "tP0", "tP1"} {
		rootNames["Desc_"+n[k]]++
	}
	if n["tS"] == n["tA"] && n["pkgD"] == n["pkgA"] {
		return nil, false
	}
	// import names used in the root package's files are package-scope names of those files
	// (the user's files import the two packages as u_<name>, so package names may collide with anything)
	rootNames["wire"]++
	rootNames["vt"]++
	for _, c := range rootNames {
		if c > 1 {
			return nil, false
		}
	}
	if n["tA"] == n["fA"] && false {
		return nil, false
	}
	if n["tA"] == n["fA"] || n["tB"] == n["fB"] || n["fieldA"] == n["fieldB"] {
		return nil, false
	}
	for _, k := range []string{"tA", "tB", "fA", "fB", "tS", "fieldA", "fieldB"} {
		r := []rune(n[k])
		if !unicode.IsUpper(r[0]) {
			return nil, false
		}
	}
	// names the harness itself uses in the rendered user code
	for _, k := range []string{"tC", "tS", "tV", "tR", "tP0", "tP1", "fC", "fR", "set", "decl"} {
		switch n[k] {
		case "a0", "a1", "a2", "id", "fail", "r", "drive_Init", "drive_Init2", "p":
			return nil, false
		}
	}
	// predeclared identifiers redefined at package level break the harness' own rendered code
	// (string, len, true are used by it), except as import/param names which are scoped
	for _, k := range []string{"tC", "tS", "tV", "tR", "tP0", "tP1", "fC", "fR", "set", "decl"} {
		switch n[k] {
		case "string", "len", "true", "int", "error", "nil":
			return nil, false
		}
	}

	if p0, p1 := n["param0"], n["param1"]; p0 == p1 && p0 != "_" && p0 != "-" {
		return nil, false
	}
	// a parameter shadows package-level names inside the injector template: if it is named like something the
	// wire.Build call mentions, the template means a different program (or does not type-check)
	for _, pk := range []string{"param0", "param1"} {
		for _, k := range []string{"fC", "fR", "set", "tV"} {
			if n[pk] == n[k] {
				return nil, false
			}
		}
		if n[pk] == "wire" {
			return nil, false
		}
	}
	for _, k := range []string{"param0", "param1"} {
		switch n[k] {
		case "string", "len":
			// a parameter named like a predeclared identifier is legal and only scoped to the injector
		}
	}
	return prog, true
}

func checkC14(c *h.Check) {
	thorough := c.Tier == "thorough"
	var cases []*h.Case
	skipped := 0
	neutral := map[string]string{}
	for _, e := range c14Entities {
		neutral[e.id] = e.neutral
	}
	seenNaming := map[string]bool{}
	add := func(id string, n map[string]string, declKind int) {
		var keys []string
		for k := range n {
			keys = append(keys, k)
		}
		sort.Strings(keys)
		sig := fmt.Sprint(declKind)
		for _, k := range keys {
			sig += "|" + k + "=" + n[k]
		}
		if seenNaming[sig] {
			return
		}
		seenNaming[sig] = true
		prog, ok := c14Program(n, declKind)
		if !ok {
			skipped++
			return
		}
		for _, inj := range prog.Injectors {
			if w := ir.NewModel().Solve(inj); !w.Accepted() {
				c.Internalf("C14 base is not well-formed under naming %s: %v", id, w.Reasons)
				return
			}
		}
		cs := caseFromProgram(id, prog, true, nil)
		if c.NoteProgram(cs.Files) {
			cases = append(cases, cs)
		}
	}
	bound := 2
	core := map[string]bool{"err": true, "err2": true, "cleanup": true, "cleanup2": true, "Err": true, "Cleanup": true, "Cleanup2": true}
	relevant := map[string]bool{"err": true, "err2": true, "cleanup": true, "cleanup2": true, "Err": true, "Cleanup": true, "alib": true, "alib2": true, "gamma": true, "Gamma": true, "alpha": true, "Alpha": true, "_wireValValue": true, "res": true, "agg": true, "_": true, "-": true}
	st := explore.Run(bound, func(x *explore.Ctx) {
		devs := 0
		first := ""
		for _, e := range c14Entities {
			pool := c14Pools[e.class]
			k := x.Choose(e.id, len(pool)+1)
			if k > 0 {
				devs++
				if devs == 1 {
					first = pool[k-1]
				}
				// two deviations: thorough over the collision-relevant names, quick over the names wire itself invents
				if devs == 2 && thorough && !(relevant[pool[k-1]] && relevant[first]) {
					x.Skip()
					return
				}
				if devs == 2 && !thorough && !(core[pool[k-1]] && core[first]) {
					x.Skip()
					return
				}
			}
		}
		x.Choose("declkind", 4)
	}, func(x *explore.Ctx) {
		ch := x.Map()
		n := map[string]string{}
		for _, e := range c14Entities {
			n[e.id] = e.neutral
			if k := ch[e.id]; k > 0 {
				n[e.id] = c14Pools[e.class][k-1]
			}
		}
		if n["decl"] == "" && ch["declkind"] != 0 {
			return
		}
		add("C14/"+x.ID(), n, ch["declkind"])
	})
	// both lib packages under the same package name, and same-named types in them
	for _, nm := range []string{"cfg", "err", "cleanup", "gamma"} {
		n := map[string]string{}
		for k, v := range neutral {
			n[k] = v
		}
		n["pkgA"], n["pkgB"] = nm, nm
		add("C14/samepkg="+nm, n, 0)
		n2 := map[string]string{}
		for k, v := range n {
			n2[k] = v
		}
		n2["tA"], n2["tB"] = "Thing", "Thing"
		n2["fA"], n2["fB"] = "New", "New"
		add("C14/samepkg="+nm+"/sametypes", n2, 0)
		// the directory of the second one is named like the name wire will pick for it (and the other way round)
		for v := 0; v < 3; v++ {
			n3 := map[string]string{}
			for k, x := range n {
				n3[k] = x
			}
			switch v {
			case 0:
				n3["relB"] = "b/" + nm + "2"
			case 1:
				n3["relA"] = "a/" + nm + "2"
			case 2:
				n3["relA"], n3["relB"] = "a/"+nm+"2", "b/"+nm
			}
			add(fmt.Sprintf("C14/samepkg=%s/dir-named-like-second-choice=%d", nm, v), n3, 0)
		}
	}
	// parameter lists whose names interact with each other: a blank parameter whose derived name is the name the user
	// gave to a later (or earlier) one; a parameter renamed because of a package-level name next to one the user
	// called by that second choice
	paramPairs := 0
	for i, pr := range [][3]string{{"_", "argT", ""}, {"argT", "_", ""}, {"_", "argU", ""}, {"argU", "_", ""}, {"arg0", "arg02", "arg0"}, {"arg02", "arg0", "arg0"}, {"_", "argT2", "argT"}, {"argT2", "_", "argT"}} {
		for dk := 0; dk < 2; dk++ {
			n := map[string]string{}
			for k, v := range neutral {
				n[k] = v
			}
			n["param0"], n["param1"], n["decl"] = pr[0], pr[1], pr[2]
			if pr[2] == "" && dk == 1 {
				continue
			}
			before := len(cases)
			add(fmt.Sprintf("C14/param-pairs/%d/declkind=%d", i, dk), n, dk)
			paramPairs += len(cases) - before
		}
	}
	if c.Only == "" && paramPairs < 8 {
		c.Internalf("vacuous: only %d parameter-pair namings are expressible", paramPairs)
	}
	results := c.JudgeAll(cases)
	stdCoverage(c, cases, results, fmt.Sprintf("parameter pairs whose chosen and derived names meet (blank next to the name wire derives for it, a renamed parameter next to its second choice); a fixed rich program (two imported packages, error+cleanup chain across packages, struct provider, value, two injector parameters, a named set, two injectors) whose %d nameable entities (package names, type names in three packages, provider names, field names, parameter names incl. blank and absent, set variable, an extra package-level var/func/type/const) are each renamed to every name of an adversarial pool (err, err2, cleanup, cleanupN, the first and second choice wire derives for each local, import names and name2, packages named like the predeclared identifiers the generated code itself uses (error, nil), _wire<T>Value(2), type names that unexport to keywords and predeclared identifiers, numeric-suffix families, non-ASCII, UPPERWord); deviation bound %d (pairs: quick over the names wire itself invents - err, err2, cleanup, cleanup2 and their exported forms; thorough over all collision-relevant names); plus both imported packages under one package name with same-named types and providers. Namings under which the user's own program would not compile (redeclarations) are predicted and skipped. Oracle (differential against the name-independent model): accepted, compiles, and every scenario incl. every failure point wires, unwinds and returns exactly as under the neutral naming. Distinct = distinct rendered source.", len(c14Entities), bound))
	c.Coverage["skipped_illtyped"] = skipped
	c.Coverage["explorer"] = map[string]interface{}{"executions": st.Executions, "bound": bound}
	sampleCase(c, cases, results)
	if c.Only == "" && len(cases) < 150 {
		c.Internalf("vacuous: %d cases", len(cases))
	}
	_ = strings.ToLower
}
