package props

import (
	"fmt"

	"verif/internal/h"
	"verif/internal/ir"
)

func init() { register("C08", "model_checking", checkC08) }

// superfluous item kinds added as one more direct wire.Build argument
var extraNames = []string{"func", "struct", "value", "ifacevalue", "bind-concrete-used", "bind-pair", "fieldsof", "fieldsof-of-used-struct", "namedset", "inlineset", "emptyset"}

func extraItems(kind int) func(b *ir.Builder, types []*ir.Type) []*ir.Item {
	return func(b *ir.Builder, types []*ir.Type) []*ir.Item {
		p := b.Root
		x := b.Leaf(p, "X")
		switch kind {
		case 0:
			return []*ir.Item{ir.FuncItem(&ir.Func{Pkg: p, Name: "PX", Out: x})}
		case 1:
			return []*ir.Item{ir.StructItem(b.Agg(p, "XS"), "*")}
		case 2:
			return []*ir.Item{ir.ValueItem(x, 9100)}
		case 3:
			xi := b.Iface(p, "XI")
			dyn := b.Leaf(p, "XDyn")
			dyn.PtrRecv = true
			dyn.Impls = []*ir.Type{xi}
			return []*ir.Item{ir.IfaceValueItem(xi, ir.Ptr(dyn), 9101)}
		case 4:
			// a binding whose concrete type is provided and used; only the binding is superfluous
			xi := b.Iface(p, "XI")
			t0 := types[0]
			if t0.Kind != ir.KLeaf {
				return nil
			}
			t0.Impls = append(t0.Impls, xi)
			return []*ir.Item{ir.BindItem(xi, t0)}
		case 5:
			xi := b.Iface(p, "XI")
			conc := b.Leaf(p, "XC")
			conc.Impls = []*ir.Type{xi}
			return []*ir.Item{ir.FuncItem(&ir.Func{Pkg: p, Name: "PXC", Out: conc}), ir.BindItem(xi, conc)}
		case 6:
			hd := b.Agg(p, "XH", &ir.Field{Name: "F", T: x})
			return []*ir.Item{ir.FuncItem(&ir.Func{Pkg: p, Name: "PXH", Out: hd}), ir.FieldsOfItem(hd, false, "F")}
		case 7:
			// FieldsOf an aggregate that is provided and used; only the field provider is superfluous
			for _, t := range types {
				s := t
				if s.Kind == ir.KPtr {
					s = s.Elem
				}
				if s.Kind == ir.KAgg && len(s.Fields) > 0 {
					return nil // selecting an existing field type would conflict; handled by the dedicated positive family
				}
			}
			return nil
		case 8:
			return []*ir.Item{ir.SetRef(&ir.Set{Pkg: p, Name: "XSet", Items: []*ir.Item{ir.FuncItem(&ir.Func{Pkg: p, Name: "PX", Out: x})}})}
		case 9:
			return []*ir.Item{ir.InlineSet(&ir.Set{Pkg: p, Items: []*ir.Item{ir.FuncItem(&ir.Func{Pkg: p, Name: "PX", Out: x})}})}
		case 10:
			return []*ir.Item{ir.SetRef(&ir.Set{Pkg: p, Name: "XEmpty"})}
		}
		return nil
	}
}

func checkC08(c *h.Check) {
	thorough := c.Tier == "thorough"
	focus := map[string]bool{"unused": true}
	var cases []*h.Case
	kinds := tally{}
	add := func(id string, g *GraphSpec) {
		prog, _ := g.Build()
		cs := &h.Case{ID: id, Files: ir.Render(prog, true), Drive: true, Judge: judgeProgramF(prog, true, map[string]bool{"wiring": true}, focus)}
		if !c.NoteProgram(cs.Files) {
			return
		}
		w := ir.NewModel().Solve(prog.Injectors[0])
		if len(w.Reasons) > 0 {
			kinds.inc("model:" + w.Reasons[0].Class)
		} else {
			kinds.inc("model:accept")
		}
		cases = append(cases, cs)
	}
	devs := map[int]int{1: 2, 2: 2, 3: 1, 4: 1}
	if thorough {
		devs = map[int]int{1: 3, 2: 3, 3: 2, 4: 2, 5: 0}
	}
	for n := 1; n <= 5; n++ {
		d, ok := devs[n]
		if !ok {
			continue
		}
		baseSpecs(n, d, func(id string, mk func() *GraphSpec) {
			// the accepted base itself: every item contributes (directly, through a nested set,
			// through either form of a struct provider, through a binding): must not be called unused
			add("C08/base/"+id, mk())
			for k := range extraNames {
				g := mk()
				g.ExtraItems = extraItems(k)
				add(fmt.Sprintf("C08/extra/%s/extra=%s", id, extraNames[k]), g)
			}
		})
	}
	// indirect use: positives that a naive 'used' computation gets wrong
	for _, g := range indirectUseSpecs() {
		add(g.id, g.spec)
	}
	results := c.JudgeAll(cases)
	stdCoverage(c, cases, results, "every accepted base program (all DAGs on <=4 nodes, thorough 5, all nodes reachable, node kind/type shape/placement deviations) as is (must be accepted: every item contributes) and extended by one superfluous direct item of each of 10 kinds (must be rejected as unused, nothing written); plus indirect-use positives (struct provider used only via S or only via *S, binding as only consumer of its concrete type, one of several FieldsOf names used, one member of a nested set used, a binding whose concrete type is consumed too and visited first). Placements: direct arguments, named set (0-2 extra nesting levels), inline NewSet. Distinct = distinct rendered source.")
	c.Coverage["model_verdict_classes"] = kinds.summary()
	sampleCase(c, cases, results)
	if kinds["model:unused"] < 50 || kinds["model:accept"] < 50 {
		c.Internalf("vacuous: %v", kinds)
	}
}

// indirectUseSpecs: hand-shaped positives for the 'conversely' half of C08.
func indirectUseSpecs() []specCase {
	var out []specCase
	// FieldsOf with two listed names of which one is used, value and pointer parent
	for ptr := 0; ptr < 2; ptr++ {
		for used := 0; used < 3; used++ { // 0: F only, 1: G only, 2: both
			ptr, used := ptr, used
			g := &GraphSpec{N: 2, Adj: [][]int{{}, {0}}, Nodes: make([]NodeSpec, 2), Root: 1}
			g.Nodes[0].Kind = NParam // placeholder replaced below
			g.ExtraItems = nil
			spec := g
			_ = spec
			out = append(out, specCase{fmt.Sprintf("C08/indirect/fieldsof-two-names/ptr=%d/used=%d", ptr, used), fieldsTwoNames(ptr == 1, used)})
		}
	}
	// a binding whose concrete type is also consumed, visited in either order, at several nesting depths
	for conc := 0; conc < 2; conc++ {
		for depth := 0; depth < 3; depth++ {
			for order := 0; order < 3; order++ {
				for nC := 1; nC <= 2; nC++ {
					conc, depth, order, nC := conc, depth, order, nC
					g := &GraphSpec{}
					g.custom = func(b *ir.Builder) *ir.Program {
						return bindProgram(0, 1, conc*0+1, 0, 1, nC, false, depth, order)
					}
					_ = conc
					out = append(out, specCase{fmt.Sprintf("C08/indirect/bind-and-concrete/conc=%d/depth=%d/order=%d/nC=%d", conc, depth, order, nC), g})
				}
			}
		}
	}
	// one named set listed directly by two (three) injectors of one package that all need it
	for order := 0; order < 2; order++ {
		for third := 0; third < 2; third++ {
			order, third := order, third
			g := &GraphSpec{}
			g.custom = func(b *ir.Builder) *ir.Program {
				p := b.Root
				ta, tb, tc, td := b.Leaf(p, "A"), b.Leaf(p, "B"), b.Leaf(p, "C"), b.Leaf(p, "D")
				set := &ir.Set{Pkg: p, Name: "StorageSet", Items: []*ir.Item{ir.FuncItem(&ir.Func{Pkg: p, Name: "PA", Out: ta}), ir.FuncItem(&ir.Func{Pkg: p, Name: "PB", Params: []*ir.Type{ta}, Out: tb})}}
				injs := []*ir.Injector{
					{Name: "InitServer", Out: tc, Items: []*ir.Item{ir.SetRef(set), ir.FuncItem(&ir.Func{Pkg: p, Name: "PC", Params: []*ir.Type{tb}, Out: tc})}},
					{Name: "InitWorker", Out: td, Items: []*ir.Item{ir.SetRef(set), ir.FuncItem(&ir.Func{Pkg: p, Name: "PD", Params: []*ir.Type{tb, ta}, Out: td})}},
				}
				if third == 1 {
					injs = append(injs, &ir.Injector{Name: "InitPlain", Out: tb, Items: []*ir.Item{ir.SetRef(set)}})
				}
				if order == 1 {
					for i, j := 0, len(injs)-1; i < j; i, j = i+1, j-1 {
						injs[i], injs[j] = injs[j], injs[i]
					}
				}
				return &ir.Program{Root: p, Injectors: injs}
			}
			out = append(out, specCase{fmt.Sprintf("C08/indirect/set-shared-by-injectors/order=%d/third=%d", order, third), g})
		}
	}
	// a wire.FieldsOf call listing two fields of which one is used, at the bottom of a long chain (many used items)
	for _, n := range []int{8, 20, 40} {
		for ptr := 0; ptr < 2; ptr++ {
			n, ptr := n, ptr
			g := &GraphSpec{}
			g.custom = func(b *ir.Builder) *ir.Program {
				p := b.Root
				tf, tg := b.Leaf(p, "TF"), b.Leaf(p, "TG")
				hd := b.Agg(p, "H", &ir.Field{Name: "F", T: tf}, &ir.Field{Name: "G", T: tg})
				var parent *ir.Type = hd
				if ptr == 1 {
					parent = ir.Ptr(hd)
				}
				items := []*ir.Item{ir.FuncItem(&ir.Func{Pkg: p, Name: "PH", Out: parent}), ir.FieldsOfItem(hd, ptr == 1, "F", "G")}
				prev := tf
				for i := 0; i < n; i++ {
					t := b.Leaf(p, fmt.Sprintf("S%d", i))
					items = append(items, ir.FuncItem(&ir.Func{Pkg: p, Name: fmt.Sprintf("PS%d", i), Params: []*ir.Type{prev}, Out: t}))
					prev = t
				}
				return &ir.Program{Root: p, Injectors: []*ir.Injector{{Name: "Init", Out: prev, Items: items}}}
			}
			out = append(out, specCase{fmt.Sprintf("C08/indirect/fieldsof-two-names-long-chain/n=%d/ptr=%d", n, ptr), g})
		}
	}
	// the injector with the superfluous item sits in the first of two injector files (or the last; or none: control)
	for _, bad := range []int{3, 4} {
		for swap := 0; swap < 2; swap++ {
			for extra := 0; extra < 3; extra++ {
				bad, swap, extra := bad, swap, extra
				g := &GraphSpec{}
				g.custom = func(b *ir.Builder) *ir.Program { return twoFilesProgramN(bad, swap == 1, extra) }
				id := fmt.Sprintf("C08/indirect/two-injector-files/bad=%d/last=%d", bad, swap)
				if extra > 0 {
					id += fmt.Sprintf("/extra=%d", extra)
				}
				out = append(out, specCase{id, g})
			}
		}
	}
	// two separate wire.FieldsOf items over one struct, one of them (or one of three) entirely unused: the unused call
	// is reported whatever its neighbours contribute; the same two fields in ONE call are accepted (one item)
	for variant := 0; variant < 4; variant++ {
		for ptr := 0; ptr < 2; ptr++ {
			variant, ptr := variant, ptr
			g := &GraphSpec{}
			g.custom = func(b *ir.Builder) *ir.Program {
				p := b.Root
				tn, td, te := b.Leaf(p, "Name"), b.Leaf(p, "Debug"), b.Leaf(p, "Extra")
				cfgT := b.Agg(p, "Config", &ir.Field{Name: "Name", T: tn}, &ir.Field{Name: "Debug", T: td}, &ir.Field{Name: "Extra", T: te})
				var parent *ir.Type = cfgT
				if ptr == 1 {
					parent = ir.Ptr(cfgT)
				}
				app := b.Leaf(p, "App")
				items := []*ir.Item{ir.FuncItem(&ir.Func{Pkg: p, Name: "PConfig", Out: parent})}
				switch variant {
				case 0: // used call first, unused call second
					items = append(items, ir.FieldsOfItem(cfgT, ptr == 1, "Name"), ir.FieldsOfItem(cfgT, ptr == 1, "Debug"))
				case 1: // unused first
					items = append(items, ir.FieldsOfItem(cfgT, ptr == 1, "Debug"), ir.FieldsOfItem(cfgT, ptr == 1, "Name"))
				case 2: // three calls, the middle one unused
					items = append(items, ir.FieldsOfItem(cfgT, ptr == 1, "Name"), ir.FieldsOfItem(cfgT, ptr == 1, "Debug"), ir.FieldsOfItem(cfgT, ptr == 1, "Extra"))
				case 3: // one call listing both: accepted
					items = append(items, ir.FieldsOfItem(cfgT, ptr == 1, "Name", "Debug"))
				}
				deps := []*ir.Type{tn}
				if variant == 2 {
					deps = append(deps, te)
				}
				items = append(items, ir.FuncItem(&ir.Func{Pkg: p, Name: "NewApp", Params: deps, Out: app}))
				return &ir.Program{Root: p, Injectors: []*ir.Injector{{Name: "Init", Out: app, Items: items}}}
			}
			out = append(out, specCase{fmt.Sprintf("C08/indirect/separate-fieldsof-calls/variant=%d/ptr=%d", variant, ptr), g})
		}
	}
	// a chain of bindings written directly in wire.Build: every binding of the chain contributes, whichever end is consumed
	permutations(3, func(perm []int) {
		for _, mask := range []int{1, 3, 5} {
			perm, mask := perm, mask
			g := &GraphSpec{}
			g.custom = func(b *ir.Builder) *ir.Program { return chainBindProgram(2, mask, perm, 0) }
			out = append(out, specCase{fmt.Sprintf("C08/indirect/bind-chain/consumers=%b/perm=%v", mask, perm), g})
		}
	})
	return out
}

// fieldsTwoNames: holder H{F TF; G TG} provided by PH; FieldsOf(new(H), "F", "G"); the result
// consumer takes F, G or both.
func fieldsTwoNames(ptrParent bool, used int) *GraphSpec {
	g := &GraphSpec{N: 1, Adj: [][]int{{}}, Nodes: make([]NodeSpec, 1), Root: 0}
	g.Nodes[0].Kind = NValue // dummy node, replaced through ExtraItems below
	g.custom = func(b *ir.Builder) *ir.Program {
		p := b.Root
		tf, tg := b.Leaf(p, "TF"), b.Leaf(p, "TG")
		hd := b.Agg(p, "H", &ir.Field{Name: "F", T: tf}, &ir.Field{Name: "G", T: tg})
		var parent *ir.Type = hd
		if ptrParent {
			parent = ir.Ptr(hd)
		}
		r := b.Leaf(p, "R")
		var deps []*ir.Type
		switch used {
		case 0:
			deps = []*ir.Type{tf}
		case 1:
			deps = []*ir.Type{tg}
		default:
			deps = []*ir.Type{tf, tg}
		}
		inj := &ir.Injector{Name: "Init", Out: r, Items: []*ir.Item{
			ir.FuncItem(&ir.Func{Pkg: p, Name: "PH", Out: parent}),
			ir.FieldsOfItem(hd, ptrParent, "F", "G"),
			ir.FuncItem(&ir.Func{Pkg: p, Name: "PR", Params: deps, Out: r}),
		}}
		return &ir.Program{Root: p, Injectors: []*ir.Injector{inj}}
	}
	return g
}
