package props

import (
	"fmt"
	"os"
	"path/filepath"
	"sort"
	"strings"

	"verif/internal/explore"
	"verif/internal/h"
	"verif/internal/ir"
	"verif/internal/maporder"
)

func init() { register("C19", "model_checking", checkC19) }

// diagClass maps a wire diagnostic to an error class.
func diagClass(d string) string {
	switch {
	case strings.Contains(d, "multiple bindings"):
		return "conflict"
	case strings.Contains(d, "cycle for"):
		return "cycle"
	case strings.Contains(d, "no provider found"):
		return "missing"
	case strings.Contains(d, "unused "):
		return "unused"
	case strings.Contains(d, "does not implement"):
		return "not-implemented"
	case strings.Contains(d, "does not include a provider"):
		return "bind-unprovided"
	case strings.Contains(d, "wrong signature"), strings.Contains(d, "return values"), strings.Contains(d, "return type"):
		return "bad-signature"
	case strings.Contains(d, "multiple parameters of type"), strings.Contains(d, "multiple fields of type"):
		return "duplicate-input"
	case strings.Contains(d, "is not a field"), strings.Contains(d, "prevented from injecting"):
		return "bad-field"
	case strings.Contains(d, "returns cleanup but"), strings.Contains(d, "returns error but"):
		return "injector-result-missing"
	case strings.Contains(d, "interface to itself"):
		return "self-bind"
	case strings.Contains(d, "can't be used"), strings.Contains(d, "unexported"):
		return "inaccessible-value"
	case strings.Contains(d, "too complex"), strings.Contains(d, "may not be an interface"):
		return "bad-value"
	case strings.Contains(d, "CRASH"):
		return "crash"
	}
	return "other"
}

func classSet(ds []string) []string {
	m := map[string]bool{}
	for _, d := range ds {
		m[diagClass(d)] = true
	}
	var out []string
	for k := range m {
		out = append(out, k)
	}
	sort.Strings(out)
	return out
}

// judgeCheckAgainstGen: check must fail exactly when gen fails for some package of the case or
// the model finds an ill-formed top-level set; when both fail the error classes coincide.
func judgeCheckAgainstGen(illFormedSet bool) func(r *h.Result) []h.Violation {
	return func(r *h.Result) []h.Violation {
		if r.Crashed || r.TimedOut {
			return nil // gen's own crash is another property's business
		}
		if r.LoadFailed {
			return []h.Violation{{Symptom: "harness-illtyped", Detail: clip(r.AllDiags(), 800)}}
		}
		if !r.CheckRan {
			return []h.Violation{{Symptom: "harness-check-not-run", Detail: "wire check did not run"}}
		}
		var vs []h.Violation
		if r.TreeChangedBy != "" {
			vs = append(vs, h.Violation{Symptom: "readonly-command-writes", Detail: "wire " + r.TreeChangedBy + " changed the tree"})
		}
		genFailed := false
		var genDiags []string
		for _, p := range r.Pkgs {
			if p.Failed {
				genFailed = true
				genDiags = append(genDiags, p.Diags...)
			}
		}
		checkFailed := len(r.CheckDiags) > 0
		for _, d := range r.CheckDiags {
			if strings.HasPrefix(d, "CRASH") {
				vs = append(vs, h.Violation{Symptom: "check-crash", Detail: d})
				return vs
			}
		}
		switch {
		case genFailed && !checkFailed:
			vs = append(vs, h.Violation{Symptom: "check-accepts:" + strings.Join(classSet(genDiags), "+"), Detail: "gen rejects the program but check succeeds (batch dir " + r.Case.Dir + "); gen says:\n" + clip(strings.Join(genDiags, "\n"), 1000)})
		case !genFailed && checkFailed && !illFormedSet:
			vs = append(vs, h.Violation{Symptom: "check-rejects:" + strings.Join(classSet(r.CheckDiags), "+"), Detail: "gen accepts the program (and every top-level set is well-formed) but check fails:\n" + clip(strings.Join(r.CheckDiags, "\n"), 1000)})
		case !checkFailed && illFormedSet:
			vs = append(vs, h.Violation{Symptom: "check-misses-illformed-set", Detail: "a top-level provider set is ill-formed but check succeeds"})
		case genFailed && checkFailed:
			g, k := classSet(genDiags), classSet(r.CheckDiags)
			// every class gen reports must be reported by check (check may add classes for unused sets)
			km := map[string]bool{}
			for _, x := range k {
				km[x] = true
			}
			for _, x := range g {
				if !km[x] {
					vs = append(vs, h.Violation{Symptom: "class-mismatch:" + x, Detail: fmt.Sprintf("gen reports classes %v, check reports %v\ngen:\n%s\ncheck:\n%s", g, k, clip(strings.Join(genDiags, "\n"), 800), clip(strings.Join(r.CheckDiags, "\n"), 800))})
					break
				}
			}
		}
		return vs
	}
}

// illFormedSets reports whether the model finds an ill-formed named set in the program.
func illFormedSets(prog *ir.Program) bool {
	m := ir.NewModel()
	for _, s := range ir.NamedSets(prog) {
		if len(m.AnalyzeSet(s).Reasons) > 0 {
			return true
		}
	}
	return false
}

// ---- show ----

type shownSet struct {
	imports []string
	groups  map[string][]string // "A, B" (sorted input list, "" = no inputs) -> sorted outputs
}

func parseShow(out string) (map[string]*shownSet, []string, error) {
	sets := map[string]*shownSet{}
	var injectors []string
	var cur *shownSet
	curGroup := ""
	for _, line := range strings.Split(out, "\n") {
		if strings.TrimSpace(line) == "" {
			continue
		}
		switch {
		case strings.HasPrefix(line, "INJECTOR "):
			injectors = append(injectors, strings.TrimPrefix(line, "INJECTOR "))
		case !strings.HasPrefix(line, "\t"):
			cur = &shownSet{groups: map[string][]string{}}
			sets[strings.TrimSpace(line)] = cur
		case strings.HasPrefix(line, "\t\t\t"):
			// position line
		case strings.HasPrefix(line, "\t\t"):
			if cur == nil {
				return nil, nil, fmt.Errorf("output outside set: %q", line)
			}
			cur.groups[curGroup] = append(cur.groups[curGroup], strings.TrimSpace(line))
		default:
			t := strings.TrimSpace(line)
			if cur == nil {
				return nil, nil, fmt.Errorf("line outside set: %q", line)
			}
			if strings.HasPrefix(t, "Outputs given ") {
				g := strings.TrimSuffix(strings.TrimPrefix(t, "Outputs given "), ":")
				if g == "no inputs" {
					g = ""
				}
				curGroup = g
				if _, dup := cur.groups[g]; dup {
					return nil, nil, fmt.Errorf("group %q listed twice", g)
				}
				cur.groups[g] = nil
			} else {
				cur.imports = append(cur.imports, t)
			}
		}
	}
	sort.Strings(injectors)
	return sets, injectors, nil
}

func judgeShow(prog *ir.Program) func(r *h.Result) []h.Violation {
	return func(r *h.Result) []h.Violation {
		if !r.ShowRan {
			return []h.Violation{{Symptom: "harness-show-not-run", Detail: "wire show did not run"}}
		}
		var vs []h.Violation
		bad := func(sym, format string, a ...interface{}) {
			vs = append(vs, h.Violation{Symptom: sym, Detail: fmt.Sprintf(format, a...) + "\n--- show output ---\n" + clip(r.ShowOut, 2500)})
		}
		for _, d := range r.ShowDiags {
			if strings.HasPrefix(d, "CRASH") {
				bad("show-crash", "%s", d)
				return vs
			}
		}
		if r.TreeChangedBy == "show" {
			bad("readonly-command-writes", "wire show changed the tree")
		}
		if len(r.ShowDiags) > 0 {
			bad("show-fails", "show reported errors on a well-formed program: %v", r.ShowDiags)
			return vs
		}
		for name, out := range r.ShowOuts {
			if out != r.ShowOut {
				bad("show-order-dependent", "wire show prints something else when wire's internal maps are iterated in %s order:\n--- %s ---\n%s", name, name, clip(out, 1500))
				return vs
			}
		}
		sets, injectors, err := parseShow(r.ShowOut)
		if err != nil {
			bad("show-format", "%v", err)
			return vs
		}
		m := ir.NewModel()
		named := ir.NamedSets(prog)
		if len(sets) != len(named) {
			bad("show-sets", "show lists %d sets, the program declares %d top-level provider sets", len(sets), len(named))
		}
		for _, s := range named {
			key := "\"" + s.Pkg.Path() + "\"." + s.Name
			got := sets[key]
			if got == nil {
				bad("show-sets", "set %s is not listed", key)
				continue
			}
			want := ir.IncludedSets(s)
			sort.Strings(got.imports)
			if strings.Join(want, "|") != strings.Join(got.imports, "|") {
				bad("show-includes", "set %s: included named sets %v, want %v", key, got.imports, want)
			}
			si := m.AnalyzeSet(s)
			wantGroups := map[string][]string{}
			for k, ins := range si.Inputs() {
				if si.PM.M[k].Kind == ir.SParam {
					continue
				}
				g := strings.Join(ins, ", ")
				wantGroups[g] = append(wantGroups[g], k)
			}
			for g := range wantGroups {
				sort.Strings(wantGroups[g])
			}
			for g, outs := range wantGroups {
				gotOuts := append([]string{}, got.groups[g]...)
				sort.Strings(gotOuts)
				if strings.Join(gotOuts, "|") != strings.Join(outs, "|") {
					bad("show-groups", "set %s, outputs given [%s]: show lists %v, the types needing exactly these inputs are %v", key, g, gotOuts, outs)
				}
			}
			for g := range got.groups {
				if _, ok := wantGroups[g]; !ok {
					bad("show-groups", "set %s: show has a group for inputs [%s] that no provided type has", key, g)
				}
			}
		}
		var wantInj []string
		for _, inj := range prog.Injectors {
			wantInj = append(wantInj, "\""+prog.Root.Path()+"\"."+inj.Name)
		}
		sort.Strings(wantInj)
		if strings.Join(wantInj, "|") != strings.Join(injectors, "|") {
			bad("show-injectors", "show lists injectors %v, want %v", injectors, wantInj)
		}
		return vs
	}
}

// NExternal nodes are declared types nobody provides: inputs of the set.
func showSpecs(thorough bool) []specCase {
	var out []specCase
	maxN := 4
	for n := 1; n <= maxN; n++ {
		for mask := uint64(0); mask < 1<<uint(dagEdgeBits(n)); mask++ {
			adj := dagAdj(n, mask)
			dev := 1
			if n <= 3 || thorough {
				dev = 2
			}
			m := mask
			explore.Run(dev, func(x *explore.Ctx) {
				for i := 0; i < n; i++ {
					k := x.Choose(fmt.Sprintf("kind%d", i), 8)
					kind := []int{NFunc, NExternal, NStruct, NStructV, NField, NPtrField, NBound, NValue}[k]
					if (kind == NValue || kind == NExternal) && len(adj[i]) > 0 {
						x.Skip()
						return
					}
				}
				x.Choose("depth", 3)
				x.Choose("lib", n+1)
				x.Choose("pernode", 3) // 0 flat, 1 one named set per node inside the top-level set, 2 each of them wrapped in an inline NewSet
			}, func(x *explore.Ctx) {
				ch := x.Map()
				g := &GraphSpec{N: n, Adj: adj, Nodes: make([]NodeSpec, n), Root: n - 1, InSet: true, Depth: ch["depth"], PerNode: ch["pernode"] > 0, InlineWrap: ch["pernode"] == 2}
				for i := 0; i < n; i++ {
					g.Nodes[i].Kind = []int{NFunc, NExternal, NStruct, NStructV, NField, NPtrField, NBound, NValue}[ch[fmt.Sprintf("kind%d", i)]]
					g.Nodes[i].Lib = i < ch["lib"]
				}
				g.Split = ch["lib"] > 0 && ch["pernode"] == 0
				g.ShowOnly = true
				out = append(out, specCase{fmt.Sprintf("C19/show/n=%d/dag=%d/%s", n, m, x.ID()), g})
			})
		}
	}
	// two providers whose input sets overlap in one type and differ in another (and variants): the groups
	// must be told apart by all of their members, not by size or by one member
	for variant := 0; variant < 6; variant++ {
		n := 6
		// nodes 0..2 external inputs L, D, C; 3 = Users(L, D); 4 = Reports(L, C) / variants; 5 = Clock()
		adjs := [][][]int{
			{{}, {}, {}, {0, 1}, {0, 2}, {}},
			{{}, {}, {}, {0, 1}, {1, 0}, {}},
			{{}, {}, {}, {0, 1}, {2, 1}, {}},
			{{}, {}, {}, {0, 1, 2}, {0, 2}, {3}},
			{{}, {}, {}, {0}, {0, 1}, {3, 4}},
			{{}, {}, {}, {2, 1}, {1, 2}, {0}},
		}
		g := &GraphSpec{N: n, Adj: adjs[variant], Nodes: make([]NodeSpec, n), Root: n - 1, InSet: true, ShowOnly: true}
		for i := 0; i < 3; i++ {
			g.Nodes[i].Kind = NExternal
		}
		out = append(out, specCase{fmt.Sprintf("C19/show/overlap/variant=%d", variant), g})
	}
	// a package that declares a provider-set variable merely as another name for a set of another package: it need not
	// import wire at all, and its variable is a provider set like any other
	for variant := 0; variant < 2; variant++ {
		variant := variant
		g := &GraphSpec{}
		g.custom = func(b *ir.Builder) *ir.Program {
			p, lib := b.Root, b.Lib
			ta, tb := b.Leaf(lib, "A"), b.Leaf(lib, "B")
			set := &ir.Set{Pkg: lib, Name: "Set", Items: []*ir.Item{ir.FuncItem(&ir.Func{Pkg: lib, Name: "PA", Out: ta}), ir.FuncItem(&ir.Func{Pkg: lib, Name: "PB", Params: []*ir.Type{ta}, Out: tb})}}
			home := &ir.Pkg{Name: "app", Rel: "app"}
			if variant == 1 {
				home = p
			}
			alias := &ir.Set{Pkg: home, Name: "AppSet", Items: []*ir.Item{ir.SetRef(set)}, AliasOf: set}
			z := b.Leaf(p, "Z")
			return &ir.Program{Root: p, ExtraSets: []*ir.Set{alias}, Injectors: []*ir.Injector{{Name: "InitZ", Out: z, Items: []*ir.Item{ir.FuncItem(&ir.Func{Pkg: p, Name: "PZ", Out: z})}}}}
		}
		out = append(out, specCase{fmt.Sprintf("C19/show/alias-of-foreign-set/variant=%d", variant), g})
	}
	// wire.FieldsOf over a struct the set does not provide (an outside input), listing several fields, with consumers
	// of the field types: everything is an output given that struct alone
	for ptr := 0; ptr < 2; ptr++ {
		for nf := 2; nf <= 3; nf++ {
			for cons := 1; cons < 8; cons++ {
				if nf == 2 && cons >= 4 {
					continue
				}
				ptr, nf, cons := ptr, nf, cons
				g := &GraphSpec{}
				g.custom = func(b *ir.Builder) *ir.Program {
					p := b.Root
					var fields []*ir.Field
					var names []string
					var ftypes []*ir.Type
					for i := 0; i < nf; i++ {
						ft := b.Leaf(p, fmt.Sprintf("FT%d", i))
						ftypes = append(ftypes, ft)
						fields = append(fields, &ir.Field{Name: fmt.Sprintf("F%d", i), T: ft})
						names = append(names, fmt.Sprintf("F%d", i))
					}
					cfgT := b.Agg(p, "Config", fields...)
					items := []*ir.Item{ir.FieldsOfItem(cfgT, ptr == 1, names...)}
					var mids []*ir.Type
					for i := 0; i < nf; i++ {
						if cons&(1<<uint(i)) == 0 {
							continue
						}
						mt := ir.Ptr(b.Leaf(p, fmt.Sprintf("M%d", i)))
						mids = append(mids, mt)
						items = append(items, ir.FuncItem(&ir.Func{Pkg: p, Name: fmt.Sprintf("NewM%d", i), Params: []*ir.Type{ftypes[i]}, Out: mt}))
					}
					app := b.Leaf(p, "App")
					items = append(items, ir.FuncItem(&ir.Func{Pkg: p, Name: "NewApp", Params: mids, Out: app}))
					set := &ir.Set{Pkg: p, Name: "AppSet", Items: items}
					z := b.Leaf(p, "Z")
					return &ir.Program{Root: p, ExtraSets: []*ir.Set{set}, ExtraTypes: []*ir.Type{cfgT},
						Injectors: []*ir.Injector{{Name: "InitZ", Out: z, Items: []*ir.Item{ir.FuncItem(&ir.Func{Pkg: p, Name: "PZ", Out: z})}}}}
				}
				out = append(out, specCase{fmt.Sprintf("C19/show/fields-of-outside-struct/ptr=%d/fields=%d/consumers=%03b", ptr, nf, cons), g})
			}
		}
	}
	return out
}

func checkC19(c *h.Check) {
	thorough := c.Tier == "thorough"
	c.R.AlsoCheck = true
	// ---- Part A: check agrees with gen on the accepted and rejected programs of the other families ----
	var cases []*h.Case
	for _, fam := range []string{"C05", "C06", "C08", "C09", "C11", "C12", "C13", "C20", "C01"} {
		col := c.Collector(fam)
		col.Tier = "quick"
		props := Registry[fam]
		c20OmitBadSets = fam == "C20"
		props(col)
		c20OmitBadSets = false
		for _, cs := range col.Collected {
			if !thorough && (fam == "C06" || fam == "C08") && (strings.Contains(cs.ID, "/n=3/") || strings.Contains(cs.ID, "/n=4/") || strings.Contains(cs.ID, "/n=5/")) {
				continue // quick tier: the graph families of C06/C08 up to 2 nodes (thorough: all)
			}
			if fam == "C01" && !strings.Contains(cs.ID, "/access/") && !strings.Contains(cs.ID, "/aliased-import/") && !strings.Contains(cs.ID, "/layout/") {
				continue // of C01 only the accessibility, aliased-import and layout families (the kind matrix is all-accepted)
			}
			if fam == "C11" && !thorough && (strings.Contains(cs.ID, "/depth=2") || strings.Contains(cs.ID, "/depth=3") || strings.Contains(cs.ID, "/order=1") || strings.Contains(cs.ID, "/order=2")) {
				continue // quick tier: C11 at depth 0-1 and the default visiting order
			}
			ill := false
			if prog, ok := cs.Meta.(*ir.Program); ok && prog != nil {
				ill = illFormedSets(prog)
			}
			cc := &h.Case{ID: "C19/check/" + cs.ID, Files: cs.Files, Judge: judgeCheckAgainstGen(ill), Meta: cs.Meta}
			if c.NoteProgram(cc.Files) {
				cases = append(cases, cc)
			}
		}
	}
	// ill-formed top-level sets that no injector uses: gen succeeds, check must fail
	for k, mk := range unusedIllFormedSets() {
		prog := mk()
		cc := &h.Case{ID: fmt.Sprintf("C19/check/unused-illformed-set/%d", k), Files: ir.Render(prog, false), Judge: judgeCheckAgainstGen(true), Meta: prog}
		if c.NoteProgram(cc.Files) {
			cases = append(cases, cc)
		}
	}
	// injectors written as methods: whatever gen makes of them, check makes the same
	for mi, m := range []struct{ name, build string }{{"complete", "NewServer, NewConfig"}, {"missing-provider", "NewServer"}, {"unused-provider", "NewServer, NewConfig, NewOther"}} {
		for recv := 0; recv < 2; recv++ {
			rcv := "(App)"
			if recv == 1 {
				rcv = "(a *App)"
			}
			files := map[string]string{
				"defs.go": "package p\n\ntype App struct{}\n\ntype Config struct{}\n\ntype Other struct{}\n\ntype Server struct{ C Config }\n\nfunc NewServer(c Config) *Server { return &Server{c} }\n\nfunc NewConfig() Config { return Config{} }\n\nfunc NewOther() Other { return Other{} }\n",
				"wire.go": "//go:build wireinject\n// +build wireinject\n\npackage p\n\nimport \"github.com/google/wire\"\n\nfunc " + rcv + " Server() *Server {\n\twire.Build(" + m.build + ")\n\treturn nil\n}\n",
			}
			cc := &h.Case{ID: fmt.Sprintf("C19/check/method-injector/%s/recv=%d", m.name, recv), Files: files, Judge: judgeCheckAgainstGen(false)}
			_ = mi
			if c.NoteProgram(cc.Files) {
				cases = append(cases, cc)
			}
		}
	}
	results := c.JudgeAll(cases)
	genRej, chkRej := 0, 0
	classes := map[string]bool{}
	for _, r := range results {
		if r == nil || r.NotRun {
			continue
		}
		if r.Root().Failed {
			genRej++
		}
		if len(r.CheckDiags) > 0 {
			chkRej++
			for _, x := range classSet(r.CheckDiags) {
				classes[x] = true
			}
		}
	}
	// ---- Part A2: the same agreement under -tags: packages whose set of injectors depends on a build tag ----
	{
		var tcases []*h.Case
		for kind, name := range map[int]string{kS1: "tag-adds-injector", kFT: "tag-adds-broken-injector", kS2: "no-tag-dependence", kF: "fails-anyway"} {
			files := map[string]string{}
			for p, cnt := range slotFiles("p", kind) {
				files[strings.TrimPrefix(p, "p/")] = cnt
			}
			tcases = append(tcases, &h.Case{ID: "C19/check-tags/" + name, Files: files, Judge: judgeCheckAgainstGen(false)})
		}
		for _, cs := range tcases {
			c.NoteProgram(cs.Files)
		}
		c.R.ExtraGen, c.R.ExtraRO = []string{"-tags", "t"}, []string{"-tags", "t"}
		tres := c.JudgeAll(tcases)
		c.R.ExtraGen, c.R.ExtraRO = nil, nil
		for _, r := range tres {
			if r != nil && r.Root().Failed {
				genRej++
			}
		}
		cases = append(cases, tcases...)
	}
	// ---- Part B: show ----
	c.R.AlsoCheck = false
	c.R.AlsoShow = true
	// show must not depend on the iteration order of wire's internal maps: besides the plain binary, the
	// map-order-instrumented binary of C16 runs it under the reverse and the rotate policy
	{
		work := c.S.Dir("maporder")
		inst := filepath.Join(c.S.Root, "wire-instrumented")
		if _, err := maporder.Build(h.RepoDir(), work, inst, h.BaseEnv()); err != nil {
			c.Internalf("%v", err)
			return
		}
		for _, pol := range []string{"reverse", "rotate"} {
			sp := filepath.Join(work, "sched-"+pol)
			os.WriteFile(sp, []byte("wire * "+pol+"\nmain * "+pol+"\ntypeutil * "+pol+"\n"), 0o644)
			c.R.ShowVariants = append(c.R.ShowVariants, h.ShowVariant{Name: pol, Wire: inst, Env: []string{"VERIF_SCHED=" + sp}})
		}
	}
	var scases []*h.Case
	for _, sc := range showSpecs(thorough) {
		prog, _ := sc.spec.Build()
		if illFormedSets(prog) {
			continue
		}
		cs := &h.Case{ID: sc.id, Files: ir.Render(prog, false), Judge: judgeShow(prog), Meta: prog}
		if c.NoteProgram(cs.Files) {
			scases = append(scases, cs)
		}
	}
	sres := c.JudgeAll(scases)
	groupsSeen := map[string]bool{}
	for _, r := range sres {
		if r == nil || r.NotRun {
			continue
		}
		if sets, _, err := parseShow(r.ShowOut); err == nil {
			for _, s := range sets {
				for g := range s.groups {
					groupsSeen[fmt.Sprint(strings.Count(g, ",")+1, g == "")] = true
				}
			}
		}
	}
	var cl []string
	for k := range classes {
		cl = append(cl, k)
	}
	sort.Strings(cl)
	c.Coverage["check_cases"] = len(cases)
	c.Coverage["check_cases_gen_rejected"] = genRej
	c.Coverage["check_cases_check_rejected"] = chkRej
	c.Coverage["error_classes_seen"] = cl
	c.Coverage["show_cases"] = len(scases)
	c.Coverage["show_group_shapes_seen"] = len(groupsSeen)
	c.Coverage["evaluations"] = len(cases) + len(scases)
	c.Coverage["distinct_nontrivial"] = c.DistinctPrograms()
	c.Coverage["states"] = c.DistinctPrograms()
	c.Coverage["transitions"] = 2*len(cases) + len(scases)
	c.Coverage["traces_validated_against_impl"] = len(cases) + len(scases)
	c.Coverage["rule"] = "A: the accepted and rejected programs of the C05, C06, C08, C09, C11, C12, C13, C20 quick families and of C01's accessibility/aliased-import/layout families (quick tier: the graph families of C06/C08 up to 2 nodes) (every rejection reason represented) plus accepted programs carrying an unused ill-formed top-level set of each kind: wire gen and wire check run on the same tree; check must fail exactly when gen fails for a package of the case or a top-level set is ill-formed, every error class gen reports must be reported by check, and check must not change the tree; the same with -tags on packages whose injectors depend on the tag. B: all DAGs on <=4 nodes with node kinds {function, external input, struct pointer/value, field, pointer-to-field, binding, value} (deviation bound 2, thorough 2 on all), nesting depth 0-2, lib-package split, one named set per node (also wrapped in inline NewSet calls): wire show's stdout (plain binary, and the map-order-instrumented binary under the reverse and rotate policies, which must print the same) is parsed and compared with the model: every top-level set listed with the named sets it includes, every provided type grouped under exactly its transitive set of external input types, injectors listed. Distinct = distinct rendered source."
	if len(cases) > 0 && len(results) == len(cases) {
		c.Samples = append(c.Samples, map[string]interface{}{"case": cases[len(cases)/2].ID, "gen_diags": results[len(cases)/2].Root().Diags, "check_diags": results[len(cases)/2].CheckDiags})
	}
	if len(scases) > 0 && len(sres) == len(scases) {
		i := len(scases) / 2
		c.Samples = append(c.Samples, map[string]interface{}{"case": scases[i].ID, "show_output": sres[i].ShowOut})
	}
	if c.Only == "" && (genRej < 100 || len(scases) < 100) {
		c.Internalf("vacuous: gen-rejected %d show cases %d", genRej, len(scases))
	}
}

// unusedIllFormedSets: an accepted injector plus a top-level set variable nobody uses that is
// ill-formed for one reason each.
func unusedIllFormedSets() []func() *ir.Program {
	mk := func(f func(b *ir.Builder, p *ir.Pkg) []*ir.Item) func() *ir.Program {
		return func() *ir.Program {
			b := ir.NewBuilder()
			p := b.Root
			z := b.Leaf(p, "Z")
			inj := &ir.Injector{Name: "Init", Out: z, Items: []*ir.Item{ir.FuncItem(&ir.Func{Pkg: p, Name: "PZ", Out: z})}}
			return &ir.Program{Root: p, Injectors: []*ir.Injector{inj}, ExtraSets: []*ir.Set{{Pkg: p, Name: "Unused", Items: f(b, p)}}}
		}
	}
	list := c19IllFormedItemLists(mk)
	// the same sets under an unexported variable name: a top-level provider set all the same
	var out []func() *ir.Program
	for _, f := range list {
		f := f
		out = append(out, f, func() *ir.Program {
			prog := f()
			prog.ExtraSets[0].Name = "unusedSet"
			return prog
		})
	}
	return out
}

func c19IllFormedItemLists(mk func(f func(b *ir.Builder, p *ir.Pkg) []*ir.Item) func() *ir.Program) []func() *ir.Program {
	return []func() *ir.Program{
		mk(func(b *ir.Builder, p *ir.Pkg) []*ir.Item { // conflict
			t := b.Leaf(p, "T")
			return []*ir.Item{ir.FuncItem(&ir.Func{Pkg: p, Name: "PA", Out: t}), ir.FuncItem(&ir.Func{Pkg: p, Name: "PB", Out: t})}
		}),
		mk(func(b *ir.Builder, p *ir.Pkg) []*ir.Item { // cycle
			t, u := b.Leaf(p, "T"), b.Leaf(p, "U")
			return []*ir.Item{ir.FuncItem(&ir.Func{Pkg: p, Name: "PA", Params: []*ir.Type{u}, Out: t}), ir.FuncItem(&ir.Func{Pkg: p, Name: "PB", Params: []*ir.Type{t}, Out: u})}
		}),
		mk(func(b *ir.Builder, p *ir.Pkg) []*ir.Item { // binding whose concrete type is not provided
			i := b.Iface(p, "I")
			cc := b.Leaf(p, "C")
			cc.Impls = []*ir.Type{i}
			return []*ir.Item{ir.BindItem(i, cc)}
		}),
		mk(func(b *ir.Builder, p *ir.Pkg) []*ir.Item { // does not implement
			i := b.Iface(p, "I")
			cc := b.Leaf(p, "C")
			return []*ir.Item{ir.BindItem(i, cc), ir.FuncItem(&ir.Func{Pkg: p, Name: "PC", Out: cc})}
		}),
		mk(func(b *ir.Builder, p *ir.Pkg) []*ir.Item { // duplicate parameter types
			t := b.Leaf(p, "T")
			return []*ir.Item{ir.FuncItem(&ir.Func{Pkg: p, Name: "PA", Params: []*ir.Type{t, t}, Out: b.Leaf(p, "U")})}
		}),
		mk(func(b *ir.Builder, p *ir.Pkg) []*ir.Item { // unknown field
			t := b.Leaf(p, "T")
			return []*ir.Item{ir.StructItem(b.Agg(p, "S", &ir.Field{Name: "A", T: t}), "Nope")}
		}),
		mk(func(b *ir.Builder, p *ir.Pkg) []*ir.Item { // conflict through a nested set
			t := b.Leaf(p, "T")
			inner := &ir.Set{Pkg: p, Name: "Inner", Items: []*ir.Item{ir.FuncItem(&ir.Func{Pkg: p, Name: "PA", Out: t})}}
			return []*ir.Item{ir.SetRef(inner), ir.ValueItem(t, 9001)}
		}),
	}
}
