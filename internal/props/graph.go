package props

import (
	"fmt"

	"verif/internal/ir"
)

// Node source kinds of a GraphSpec.
const (
	NFunc   = iota // provider function P_i(deps...) T_i
	NStruct        // wire.Struct(new(T_i), "*"), consumers depend on *T_i; deps are the fields
	NField         // T_i selected with FieldsOf from a holder H_i{F T_i} built by PH_i(deps...)
	NBound         // T_i is an interface bound to C_i built by PC_i(deps...)
	NValue         // wire.Value / wire.InterfaceValue (no deps)
	NParam         // injector parameter (no deps)
	NStructV       // like NStruct but consumers depend on the value form T_i (only legal when acyclic)
	NPtrField      // *T_i selected as pointer-to-field from FieldsOf(new(*H_i)) where *H_i is built by PH_i(deps...)
	NExternal      // a declared type nobody provides (an input of the set; only meaningful for wire show)
	NFieldOfPtr    // T_i selected (as a value) with FieldsOf(new(*H_i)) where *H_i is built by PH_i(deps...)
)

// Type shapes of a node's provided type.
const (
	TLeaf = iota
	TPtr
	TInt
	TIface
	TSlice
	TBasic // the predeclared int
)

type NodeSpec struct {
	Kind     int
	TKind    int
	Err      bool
	Cleanup  bool
	Lib      bool // type and provider live in the lib package
	Variadic bool // NFunc: the last dependency (a slice-typed node) is taken as a variadic parameter
	Provide  int  // NFunc: near-miss mode, what the provider returns instead of the node type (see Near* constants)
}

// Near-miss modes: consumers need the node type T, the provider returns something close.
const (
	NearExact       = iota
	NearPointerOf   // provider returns *T
	NearElemOf      // node type is *L, provider returns L
	NearImplNoBind  // node type is an interface, provider returns an implementing concrete type, no binding
	NearUnderlying  // node type is a named int, provider returns the predeclared int
	NearNamed       // node type is the predeclared int, provider returns a named int
	NearAlias       // provider returns an alias of T (identical type: must stay accepted)
	NearOtherNamed  // node type is a named int, provider returns another named int with the same underlying type
	nNearModes
)

// GraphSpec describes a provider graph: Adj[i] lists the nodes node i depends on.
type GraphSpec struct {
	N          int
	Adj        [][]int
	Nodes      []NodeSpec
	Root       int
	InSet      bool // items in a named set (unused members allowed) instead of direct Build arguments
	Inline     bool // items in an inline wire.NewSet(...) argument of wire.Build
	PerNode    bool // each node's items in a named set of their own: wire.Build(Set0, Set1, ...)
	ReverseDecls bool // declarations written in reverse order (sets and providers used before they are declared)
	ParamNames int  // injector parameter names: 0 arg<i>, 1 blank (_), 2 unnamed parameter list
	BindOuter  bool // InSet: the bindings are not in the set with their providers but in a wrapper set: Outer = NewSet(Set, binds...)
	InlineWrap bool // PerNode: each per-node set reference is wrapped in an inline wire.NewSet(...)
	Depth      int  // InSet: wrap the named set in this many further named sets (Set <- Outer1 <- Outer2 ...)
	PairSets   bool // declare named sets pairwise in one var declaration
	ExtraDecl  string
	Second     int // second injector sharing the same items: 0 none, 1 declared after Init, 2 declared before Init
	SecondRoot int // node returned by the second injector
	ShowOnly   bool // keep the named set as a top-level variable and replace the injector by an unrelated trivial one
	InjMore    bool // injector declares error and cleanup results whether needed or not
	Split      bool // the items of lib nodes go to a named set declared in the lib package, included by the main set
	Hist       int
	Drop       int // 1-based index into the flattened item list of the item to leave out (0 = none)
	NItems     int // set by Build: number of items before dropping
	ExtraItems func(b *ir.Builder, types []*ir.Type) []*ir.Item
	custom     func(b *ir.Builder) *ir.Program // hand-shaped program (ignores the graph fields)
}

func shapeType(b *ir.Builder, p *ir.Pkg, name string, tk int) *ir.Type {
	switch tk {
	case TPtr:
		return ir.Ptr(b.Leaf(p, name))
	case TInt:
		return b.Int(p, name)
	case TIface:
		return b.Iface(p, name)
	case TSlice:
		return ir.Slice(b.Leaf(p, name))
	case TBasic:
		return ir.BasicInt()
	}
	return b.Leaf(p, name)
}

// Build renders the spec into an IR program. It returns the program and the node types.
func (g *GraphSpec) Build() (*ir.Program, []*ir.Type) {
	b := ir.NewBuilder()
	if g.custom != nil {
		return g.custom(b), nil
	}
	p := b.Root
	n := g.N
	types := make([]*ir.Type, n)
	pkgOf := func(i int) *ir.Pkg {
		if g.Nodes[i].Lib {
			return b.Lib
		}
		return b.Root
	}
	for i := 0; i < n; i++ {
		name := fmt.Sprintf("T%d", i)
		nd := g.Nodes[i]
		p := pkgOf(i)
		switch nd.Kind {
		case NStruct:
			types[i] = ir.Ptr(b.Agg(p, name))
		case NStructV:
			types[i] = b.Agg(p, name)
		case NBound:
			types[i] = b.Iface(p, name)
		case NPtrField:
			types[i] = ir.Ptr(b.Leaf(p, name))
		default:
			types[i] = shapeType(b, p, name, nd.TKind)
		}
	}
	var items, items2, outerBinds []*ir.Item
	var params []ir.Param
	needErr, needCleanup := false, false
	for i := 0; i < n; i++ {
		nd := g.Nodes[i]
		p := pkgOf(i)
		start := len(items)
		var deps []*ir.Type
		for _, j := range g.Adj[i] {
			deps = append(deps, types[j])
		}
		if nd.Err {
			needErr = true
		}
		if nd.Cleanup {
			needCleanup = true
		}
		switch nd.Kind {
		case NFunc:
			variadic := nd.Variadic && len(deps) > 0 && deps[len(deps)-1].Kind == ir.KSlice
			out := types[i]
			switch nd.Provide {
			case NearPointerOf:
				out = ir.Ptr(types[i])
			case NearElemOf:
				out = types[i].Elem
			case NearImplNoBind:
				conc := b.Leaf(p, fmt.Sprintf("Impl%d", i))
				conc.Impls = []*ir.Type{types[i]}
				out = conc
			case NearUnderlying:
				out = ir.BasicInt()
			case NearNamed, NearOtherNamed:
				out = b.Int(p, fmt.Sprintf("Other%d", i))
			case NearAlias:
				out = b.Alias(p, fmt.Sprintf("Alias%d", i), types[i])
			}
			items = append(items, ir.FuncItem(&ir.Func{Pkg: p, Name: fmt.Sprintf("P%d", i), Params: deps, Out: out, Err: nd.Err, Cleanup: nd.Cleanup, Variadic: variadic}))
		case NStruct, NStructV:
			agg := types[i]
			if agg.Kind == ir.KPtr {
				agg = agg.Elem
			}
			for k, j := range g.Adj[i] {
				agg.Fields = append(agg.Fields, &ir.Field{Name: fmt.Sprintf("F%d", j), T: deps[k]})
			}
			items = append(items, ir.StructItem(agg, "*"))
		case NField:
			holder := b.Agg(p, fmt.Sprintf("H%d", i), &ir.Field{Name: "F", T: types[i]}, &ir.Field{Name: "G", T: b.Leaf(p, fmt.Sprintf("G%d", i))})
			items = append(items, ir.FuncItem(&ir.Func{Pkg: p, Name: fmt.Sprintf("PH%d", i), Params: deps, Out: holder, Err: nd.Err, Cleanup: nd.Cleanup}))
			items = append(items, ir.FieldsOfItem(holder, false, "F"))
		case NFieldOfPtr:
			holder := b.Agg(p, fmt.Sprintf("H%d", i), &ir.Field{Name: "F", T: types[i]})
			items = append(items, ir.FuncItem(&ir.Func{Pkg: p, Name: fmt.Sprintf("PH%d", i), Params: deps, Out: ir.Ptr(holder), Err: nd.Err, Cleanup: nd.Cleanup}))
			items = append(items, ir.FieldsOfItem(holder, true, "F"))
		case NPtrField:
			holder := b.Agg(p, fmt.Sprintf("H%d", i), &ir.Field{Name: "F", T: types[i].Elem})
			items = append(items, ir.FuncItem(&ir.Func{Pkg: p, Name: fmt.Sprintf("PH%d", i), Params: deps, Out: ir.Ptr(holder), Err: nd.Err, Cleanup: nd.Cleanup}))
			items = append(items, ir.FieldsOfItem(holder, true, "F"))
		case NBound:
			conc := b.Leaf(p, fmt.Sprintf("C%d", i))
			conc.Impls = []*ir.Type{types[i]}
			items = append(items, ir.FuncItem(&ir.Func{Pkg: p, Name: fmt.Sprintf("PC%d", i), Params: deps, Out: conc, Err: nd.Err, Cleanup: nd.Cleanup}))
			if g.BindOuter && g.InSet {
				outerBinds = append(outerBinds, ir.BindItem(types[i], conc))
			} else {
				items = append(items, ir.BindItem(types[i], conc))
			}
		case NValue:
			t := types[i]
			if t.Strip().Kind == ir.KIface {
				dyn := b.Leaf(p, fmt.Sprintf("V%d", i))
				dyn.Impls = []*ir.Type{t}
				dyn.PtrRecv = true
				items = append(items, ir.IfaceValueItem(t, ir.Ptr(dyn), 9000+i))
			} else {
				items = append(items, ir.ValueItem(t, 9000+i))
			}
		case NParam:
			pn := fmt.Sprintf("arg%d", i)
			switch g.ParamNames {
			case 1:
				pn = "_"
			case 2:
				pn = "-"
			}
			params = append(params, ir.Param{Name: pn, T: types[i]})
		}
		if g.Split && nd.Lib && nd.Kind != NParam {
			items2 = append(items2, items[start:]...)
			items = items[:start]
		}
		if g.PerNode && len(items) > start {
			own := append([]*ir.Item{}, items[start:]...)
			ref := ir.SetRef(&ir.Set{Pkg: p, Name: fmt.Sprintf("Set%d", i), Items: own})
			if g.InlineWrap {
				ref = ir.InlineSet(&ir.Set{Pkg: p, Items: []*ir.Item{ref}})
			}
			items = append(items[:start], ref)
		}
	}
	if g.Split && len(items2) > 0 {
		items = append(items, ir.SetRef(&ir.Set{Pkg: b.Lib, Name: "LibSet", Items: items2}))
	}
	g.NItems = len(items)
	if g.Drop > 0 && g.Drop <= len(items) {
		items = append(append([]*ir.Item{}, items[:g.Drop-1]...), items[g.Drop:]...)
	}
	var extra []*ir.Item
	if g.ExtraItems != nil {
		extra = g.ExtraItems(b, types)
	}
	inj := &ir.Injector{Name: "Init", Out: types[g.Root], Params: params}
	switch {
	case g.InSet:
		set := &ir.Set{Pkg: p, Name: "Set", Items: items}
		if len(outerBinds) > 0 {
			set = &ir.Set{Pkg: p, Name: "BindWrapper", Items: append([]*ir.Item{ir.SetRef(set)}, outerBinds...)}
		}
		for d := 1; d <= g.Depth; d++ {
			set = &ir.Set{Pkg: p, Name: fmt.Sprintf("Outer%d", d), Items: []*ir.Item{ir.SetRef(set)}}
		}
		inj.Items = []*ir.Item{ir.SetRef(set)}
	case g.Inline:
		inj.Items = []*ir.Item{ir.InlineSet(&ir.Set{Pkg: p, Items: items})}
	default:
		inj.Items = items
	}
	inj.Items = append(inj.Items, extra...) // extra items are always direct wire.Build arguments
	// exact injector shape: what the needed closure requires (decided by the model), or more
	if g.InjMore {
		inj.Err, inj.Cleanup = true, true
	} else {
		inj.Err, inj.Cleanup = needErr, needCleanup
		// refine to the needed closure
		probe := *inj
		probe.Err, probe.Cleanup = true, true
		w := ir.NewModel().Solve(&probe)
		if w.Accepted() {
			e, cl := false, false
			for _, f := range w.Funcs {
				e = e || f.Err
				cl = cl || f.Cleanup
			}
			inj.Err, inj.Cleanup = e, cl
		}
	}
	prog := &ir.Program{Root: p, Injectors: []*ir.Injector{inj}, Hist: g.Hist, ExtraDecl: g.ExtraDecl, PairSets: g.PairSets, ReverseDecls: g.ReverseDecls}
	if g.ShowOnly {
		z := b.Leaf(p, "Z")
		for _, it := range inj.Items {
			if it.Kind == ir.ISetRef {
				prog.ExtraSets = append(prog.ExtraSets, it.Set)
			}
		}
		prog.ExtraTypes = append(prog.ExtraTypes, types...)
		prog.Injectors = []*ir.Injector{{Name: "InitZ", Out: z, Items: []*ir.Item{ir.FuncItem(&ir.Func{Pkg: p, Name: "PZ", Out: z})}}}
		return prog, types
	}
	if g.Second > 0 {
		// a second injector over the very same items (shared set objects), asking for another node
		inj2 := &ir.Injector{Name: "Init2", Out: types[g.SecondRoot], Params: params, Items: inj.Items}
		probe := *inj2
		probe.Err, probe.Cleanup = true, true
		if w := ir.NewModel().Solve(&probe); w.Accepted() {
			for _, f := range w.Funcs {
				inj2.Err = inj2.Err || f.Err
				inj2.Cleanup = inj2.Cleanup || f.Cleanup
			}
		} else {
			inj2.Err, inj2.Cleanup = true, true
		}
		if g.Second == 2 {
			prog.Injectors = []*ir.Injector{inj2, inj}
		} else {
			prog.Injectors = []*ir.Injector{inj, inj2}
		}
	}
	return prog, types
}

// dagAdj: node i depends on lower-numbered nodes selected by mask bits, enumerated
// pair (i,j), j<i, in lexicographic order.
func dagAdj(n int, mask uint64) [][]int {
	adj := make([][]int, n)
	bit := uint(0)
	for i := 0; i < n; i++ {
		for j := 0; j < i; j++ {
			if mask&(1<<bit) != 0 {
				adj[i] = append(adj[i], j)
			}
			bit++
		}
	}
	return adj
}

func dagEdgeBits(n int) int { return n * (n - 1) / 2 }
