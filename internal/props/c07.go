package props

import (
	"fmt"
	"strings"
	"time"

	"verif/internal/explore"
	"verif/internal/h"
	"verif/internal/ir"
)

func init() { register("C07", "model_checking", checkC07) }

// graphProgram builds a program from a digraph: adj[i] lists the nodes node i depends on;
// kinds[i] is a node source kind of graph.go (NFunc, NStruct, NField, NBound).
func graphProgram(n int, adj [][]int, kinds []int, root int, inSet bool) *ir.Program {
	place := 0
	if inSet {
		place = 1
	}
	return graphProgramP(n, adj, kinds, root, place)
}

// graphProgramP: place 0 direct Build arguments, 1 one named set, 2 one named set per node
// (each set alone is acyclic; a cycle only exists in their union), 3 inline NewSet, 4 one named set whose bindings
// sit in a wrapper set around it (a cycle closed by a binding exists only in the wrapper).
func graphProgramP(n int, adj [][]int, kinds []int, root int, place int) *ir.Program {
	g := &GraphSpec{N: n, Adj: adj, Nodes: make([]NodeSpec, n), Root: root, InSet: place == 1 || place == 4, PerNode: place == 2, Inline: place == 3, BindOuter: place == 4}
	for i, k := range kinds {
		g.Nodes[i].Kind = k
	}
	prog, _ := g.Build()
	return prog
}

func adjFromMask(n int, mask uint64) [][]int {
	adj := make([][]int, n)
	for i := 0; i < n; i++ {
		for j := 0; j < n; j++ {
			if mask&(1<<uint(i*n+j)) != 0 {
				adj[i] = append(adj[i], j)
			}
		}
	}
	return adj
}

func popcount(x uint64) int {
	c := 0
	for ; x != 0; x &= x - 1 {
		c++
	}
	return c
}

func checkC07(c *h.Check) {
	thorough := c.Tier == "thorough"
	var cases []*h.Case
	outcomes := tally{}
	var scalExtra []*h.Case // run like the scaling family: alone, under the caps, through gen, check and show
	addGraph := func(id string, prog *ir.Program) {
		cs := caseFromProgram(id, prog, true, nil)
		if c.NoteProgram(cs.Files) {
			cases = append(cases, cs)
		}
	}
	// Family A: every labelled digraph (self-loops included) on N nodes; function edges.
	// Choice points: node count, edge mask, placement (named set / direct), root, node kind deviation.
	maxN := 3
	st := explore.Run(-1, func(x *explore.Ctx) {
		n := 1 + x.Choose("n", maxN)
		mask := uint64(x.Choose("edges", 1<<uint(n*n)))
		place := x.Choose("place", 5) // 0 named set, 1 direct, 2 one named set per node, 3 inline set, 4 bindings in a wrapper set
		direct := place != 0
		if thorough {
			x.Choose("root", n)
		}
		// node-kind deviation: which node (0 = none) and which kind
		dev := x.Choose("devnode", n+1)
		kind := 0
		if dev > 0 {
			kind = 1 + x.Choose("devkind", 5)
			if !thorough && n == 3 && popcount(mask) > 3 {
				x.Skip() // quick tier: d=1 edge kinds on N=3 only for graphs with at most 3 edges
				return
			}
			if direct && !(place == 4 && kind == 3) {
				x.Skip() // kind deviations are explored in the named-set placement (and bindings also in the wrapper placement)
				return
			}
		}
		_ = kind
	}, func(x *explore.Ctx) {
		ch := choiceMap(x)
		n := 1 + ch["n"]
		mask := uint64(ch["edges"])
		kinds := make([]int, n)
		if d := ch["devnode"]; d > 0 {
			kinds[d-1] = []int{NStruct, NField, NBound, NPtrField, NFieldOfPtr}[ch["devkind"]]
		}
		prog := graphProgramP(n, adjFromMask(n, mask), kinds, ch["root"], []int{1, 0, 2, 3, 4}[ch["place"]])
		addGraph("C07/digraph/"+x.ID(), prog)
	})
	c.Coverage["family_digraphs"] = map[string]interface{}{"executions": st.Executions, "skipped": st.Skipped, "max_nodes": maxN, "mode": "full product"}

	// Family B (thorough): all 65 536 digraphs on 4 nodes, named-set placement, root 0.
	if thorough {
		n := 4
		for mask := uint64(0); mask < 1<<16; mask++ {
			prog := graphProgram(n, adjFromMask(n, mask), make([]int, n), 0, true)
			addGraph(fmt.Sprintf("C07/digraph4/edges=%d", mask), prog)
		}
		c.Coverage["family_digraph4"] = 1 << 16
	}
	results := c.JudgeAll(cases)
	for _, r := range results {
		if r.Root().Failed {
			outcomes.inc("rejected")
		} else if r.Compiled {
			outcomes.inc("accepted+ran")
		} else {
			outcomes.inc("other")
		}
	}

	// Family D: lassos with a fan: a chain of length L from the result leads to a provider with k
	// arguments; the cycle passes through argument j (every position) and closes at the fan node,
	// the chain start or the chain middle. Covers detectors whose trail/stack handling depends on
	// path length and on sibling arguments.
	var lasso []*h.Case
	for L := 0; L <= 10; L++ {
		for k := 2; k <= 3; k++ {
			for j := 0; j < k; j++ {
				for back := 0; back < 4; back++ {
					for place := 0; place < 2; place++ {
						// nodes: chain 0..L-1, fan node L, arguments L+1..L+k, tail L+k+1 behind argument j
						n := L + k + 2
						adj := make([][]int, n)
						for i := 0; i < L; i++ {
							adj[i] = []int{i + 1}
						}
						for a := 0; a < k; a++ {
							adj[L] = append(adj[L], L+1+a)
						}
						tail := L + k + 1
						adj[L+1+j] = []int{tail}
						id := fmt.Sprintf("C07/fanlasso/L=%d/k=%d/j=%d/back=%d/place=%d", L, k, j, back, place)
						switch back {
						case 0: // acyclic
						case 1:
							adj[tail] = []int{L} // closes at the fan node
						case 2:
							adj[tail] = []int{0} // closes at the chain start (the result)
						case 3:
							adj[tail] = []int{L / 2} // closes in the middle of the chain
						}
						prog := graphProgramP(n, adj, make([]int, n), 0, place)
						cs := caseFromProgram(id, prog, true, nil)
						if c.NoteProgram(cs.Files) {
							lasso = append(lasso, cs)
						}
					}
				}
			}
		}
	}
	lres := c.JudgeAll(lasso)
	for _, r := range lres {
		if r != nil && r.Root().Failed {
			outcomes.inc("fanlasso-rejected")
		} else {
			outcomes.inc("fanlasso-accepted")
		}
	}
	cases = append(cases, lasso...)

	// Family E: termination on incomplete programs: acyclic graphs (every node kind, one deviation) with each
	// single item left out -- the planner must report the gap and stop, also when the gap lies behind a binding,
	// a field selection or a struct provider.
	var incomplete []*h.Case
	for n := 2; n <= 3; n++ {
		baseSpecs(n, 1, func(id string, mk func() *GraphSpec) {
			g0 := mk()
			g0.Build()
			for k := 1; k <= g0.NItems; k++ {
				g := mk()
				g.Drop = k
				prog, _ := g.Build()
				cs := caseFromProgram(fmt.Sprintf("C07/incomplete/%s/drop=%d", id, k), prog, true, nil)
				if c.NoteProgram(cs.Files) {
					incomplete = append(incomplete, cs)
				}
			}
		})
	}
	ires := c.JudgeAll(incomplete)
	for _, r := range ires {
		if r != nil && r.Root().Failed {
			outcomes.inc("incomplete-rejected")
		} else {
			outcomes.inc("incomplete-accepted")
		}
	}
	cases = append(cases, incomplete...)

	// Family D: bindings that wait for each other (interfaces with one and the same method set bound in a circle, and
	// a chain leading into such a circle): rejected, and above all the analysis terminates
	for shape := 0; shape < 3; shape++ {
		for place := 0; place < 3; place++ {
			b := ir.NewBuilder()
			p := b.Root
			base := b.Iface(p, "Reader")
			mk := func(name string) *ir.Type {
				t := b.Iface(p, name, base)
				t.Bare = true
				return t
			}
			src, buf, in := mk("Source"), mk("Buffer"), mk("Input")
			var binds []*ir.Item
			switch shape {
			case 0:
				binds = []*ir.Item{ir.BindItem(base, src), ir.BindItem(src, base)}
			case 1:
				binds = []*ir.Item{ir.BindItem(in, base), ir.BindItem(base, src), ir.BindItem(src, buf), ir.BindItem(buf, base)}
			case 2:
				binds = []*ir.Item{ir.BindItem(src, buf), ir.BindItem(buf, in), ir.BindItem(in, src)}
			}
			app := b.Leaf(p, "App")
			need := binds[0].T
			newApp := ir.FuncItem(&ir.Func{Pkg: p, Name: "NewApp", Params: []*ir.Type{need}, Out: app})
			inj := &ir.Injector{Name: "Init", Out: app}
			prog := &ir.Program{Root: p, Injectors: []*ir.Injector{inj}}
			switch place {
			case 0:
				inj.Items = append([]*ir.Item{newApp}, binds...)
			case 1:
				inj.Items = []*ir.Item{newApp, ir.SetRef(&ir.Set{Pkg: p, Name: "Circle", Items: binds})}
			case 2: // the circle sits in a set no injector uses
				inj.Items = []*ir.Item{ir.FuncItem(&ir.Func{Pkg: p, Name: "NewApp0", Out: app})}
				prog.ExtraSets = []*ir.Set{{Pkg: p, Name: "Circle", Items: binds}}
				prog.ExtraTypes = []*ir.Type{base, src, buf, in}
			}
			id := fmt.Sprintf("C07/binding-circle/shape=%d/place=%d", shape, place)
			cs := caseFromProgram(id, prog, false, nil)
			if place == 2 {
				// gen does not look at sets no injector uses; nothing to demand of it but termination
				cs.Judge = func(r *h.Result) []h.Violation { return judgeVerdict(r, nil) }
			} else {
				reasons := []ir.Reason{{Class: "cycle"}, {Class: "bind-unprovided", Subject: binds[0].Conc.Key()}, {Class: "bind-unprovided", Subject: binds[1].Conc.Key()}, {Class: "bind-unprovided", Subject: binds[len(binds)-1].Conc.Key()}}
				cs.Judge = func(r *h.Result) []h.Violation { return judgeVerdict(r, reasons) }
			}
			scalExtra = append(scalExtra, cs)
		}
	}
	// Family E: a provider cycle inside a named set that no injector uses (exported or unexported variable): wire gen has
	// nothing to say about it, wire check must report the cycle
	for shape := 0; shape < 3; shape++ {
		for _, setName := range []string{"Circle", "circle", "circleSet2"} {
			b := ir.NewBuilder()
			p := b.Root
			a, bb, app := b.Leaf(p, "A"), b.Leaf(p, "B"), b.Leaf(p, "App")
			var items []*ir.Item
			extra := []*ir.Type{a, bb}
			switch shape {
			case 0:
				items = []*ir.Item{ir.FuncItem(&ir.Func{Pkg: p, Name: "NewA", Params: []*ir.Type{bb}, Out: a}), ir.FuncItem(&ir.Func{Pkg: p, Name: "NewB", Params: []*ir.Type{a}, Out: bb})}
			case 1:
				items = []*ir.Item{ir.FuncItem(&ir.Func{Pkg: p, Name: "NewA", Params: []*ir.Type{a}, Out: a})}
			case 2: // three providers in a ring, one of them with a second, satisfied argument
				cc := b.Leaf(p, "C")
				items = []*ir.Item{ir.FuncItem(&ir.Func{Pkg: p, Name: "NewC0", Out: cc}), ir.FuncItem(&ir.Func{Pkg: p, Name: "NewA", Params: []*ir.Type{cc, bb}, Out: a}), ir.FuncItem(&ir.Func{Pkg: p, Name: "NewB", Params: []*ir.Type{a}, Out: bb})}
				extra = append(extra, cc)
			}
			inj := &ir.Injector{Name: "Init", Out: app, Items: []*ir.Item{ir.FuncItem(&ir.Func{Pkg: p, Name: "NewApp0", Out: app})}}
			prog := &ir.Program{Root: p, Injectors: []*ir.Injector{inj}, ExtraSets: []*ir.Set{{Pkg: p, Name: setName, Items: items}}, ExtraTypes: extra}
			cs := caseFromProgram(fmt.Sprintf("C07/unused-cyclic-set/shape=%d/name=%s", shape, setName), prog, false, nil)
			cs.Judge = func(r *h.Result) []h.Violation {
				vs := judgeVerdict(r, nil)
				if r.CheckRan {
					found := false
					for _, d := range r.CheckDiags {
						if strings.Contains(d, "cycle") {
							found = true
						}
					}
					if !found {
						vs = append(vs, h.Violation{Symptom: "check-missed-cycle", Detail: "wire check does not report the cycle inside a provider set that no injector uses; its diagnostics:\n" + clip(strings.Join(r.CheckDiags, "\n"), 800)})
					}
				}
				return vs
			}
			scalExtra = append(scalExtra, cs)
		}
	}
	// Family C: deterministic scaling families, each alone under a time cap.
	scal := append(scalingCases(thorough), scalExtra...)
	rn := h.NewRunner(c.S)
	rn.Deadline = c.Deadline
	rn.BatchSize = 1
	rn.Workers = 8
	rn.GenTimeout = 30 * time.Second
	rn.SoloTimeout = 30 * time.Second
	// analysis terminates under every sub-command: the same trees go through wire check and wire show
	rn.AlsoCheck, rn.AlsoShow = true, true
	for _, cs := range scal {
		inner := cs.Judge
		cs.Judge = func(r *h.Result) []h.Violation {
			vs := inner(r)
			for _, ro := range []struct {
				name  string
				diags []string
			}{{"check", r.CheckDiags}, {"show", r.ShowDiags}} {
				for _, d := range ro.diags {
					if strings.HasPrefix(d, "CRASH:") {
						vs = append(vs, h.Violation{Symptom: ro.name + "-timeout-or-crash", Detail: "wire " + ro.name + " did not terminate normally within the cap on a program wire gen handles:\n" + clip(d, 1200)})
						break
					}
				}
			}
			return vs
		}
	}
	saved := c.R
	c.R = rn
	sres := c.JudgeAll(scal)
	c.R = saved
	c.R.WireRuns += rn.WireRuns
	c.R.Compiles += rn.Compiles
	c.R.Scenarios += rn.Scenarios
	for _, r := range sres {
		if r.TimedOut {
			outcomes.inc("scaling-timeout")
		} else if r.Root().Failed {
			outcomes.inc("scaling-rejected")
		} else {
			outcomes.inc("scaling-accepted")
		}
	}
	total := len(cases) + len(scal)
	c.Coverage["states"] = c.DistinctPrograms()
	c.Coverage["transitions"] = c.R.WireRuns + c.R.Scenarios
	c.Coverage["traces_validated_against_impl"] = total
	c.Coverage["evaluations"] = total
	c.Coverage["distinct_nontrivial"] = c.DistinctPrograms()
	c.Coverage["rule"] = "every labelled digraph (self-loops included) on <=3 nodes (thorough: 4) rendered as a Wire program; x placement (one named set / direct / one named set per node, so that a cycle exists only in the union / inline set) x one node re-typed as struct/field/binding edge; plus fan-lassos (chain of length 0..10 to a provider with 2-3 arguments, cycle through each argument position, closing at the fan node / chain start / chain middle); plus incomplete acyclic programs (every single item of every accepted base on 2-3 nodes left out: the planner must report and stop); plus provider cycles inside named sets no injector uses (exported and unexported variables; wire check must report them); plus deterministic deep/wide scaling graphs, each also run through wire check and wire show under the same caps. Distinct = distinct rendered source text. Non-trivial: all (each is a different graph)."
	c.Coverage["outcomes"] = outcomes.summary()
	c.Coverage["scaling_cases"] = len(scal)
	if len(cases) > 0 {
		c.Samples = append(c.Samples, map[string]interface{}{"case": cases[len(cases)/2].ID, "wire.go": cases[len(cases)/2].Files["wire.go"]})
	}
	if len(scal) > 0 {
		c.Samples = append(c.Samples, scal[0].ID)
	}
	c.Assumptions = append(c.Assumptions,
		"termination is decided by completion under a 30 s cap and a 2 GiB address-space cap per scaling program (measured: <0.1 s); growth is not measured",
		"graphs larger than the stated N only through the deterministic scaling families (chain, diamond ladder, complete DAG, fan-out)")
	if c.Only == "" && (outcomes["rejected"] == 0 || outcomes["accepted+ran"] == 0) {
		c.Internalf("vacuous: outcomes %v", outcomes)
	}
}

func choiceMap(x *explore.Ctx) map[string]int {
	return x.Map()
}

// scalingCases: deep chains, diamond ladders (2^depth paths), complete DAGs, wide fan-out;
// each acyclic and with one back edge at the top, middle and bottom.
func scalingCases(thorough bool) []*h.Case {
	var out []*h.Case
	type fam struct {
		name string
		n    int
		adj  func(n int) [][]int
	}
	chain := func(n int) [][]int {
		adj := make([][]int, n)
		for i := 0; i+1 < n; i++ {
			adj[i] = []int{i + 1}
		}
		return adj
	}
	ladder := func(depth int) func(int) [][]int {
		// node 0 top; level k has nodes 2k+1, 2k+2 (two siblings), each depending on both nodes of the next level
		return func(n int) [][]int {
			adj := make([][]int, n)
			adj[0] = []int{1, 2}
			for k := 0; k+1 < depth; k++ {
				a, b2 := 2*k+1, 2*k+2
				adj[a] = []int{2*k + 3, 2*k + 4}
				adj[b2] = []int{2*k + 3, 2*k + 4}
			}
			return adj
		}
	}
	complete := func(n int) [][]int {
		adj := make([][]int, n)
		for i := 0; i < n; i++ {
			for j := i + 1; j < n; j++ {
				adj[i] = append(adj[i], j)
			}
		}
		return adj
	}
	fan := func(n int) [][]int {
		adj := make([][]int, n)
		for j := 1; j < n; j++ {
			adj[0] = append(adj[0], j)
		}
		return adj
	}
	fams := []fam{
		{"chain50", 50, chain}, {"chain200", 200, chain},
		{"ladder20", 41, ladder(20)}, {"ladder40", 81, ladder(40)}, {"ladder60", 121, ladder(60)},
		{"complete12", 12, complete}, {"complete24", 24, complete}, {"complete40", 40, complete},
		{"fan200", 201, fan},
	}
	if thorough {
		fams = append(fams, fam{"chain1000", 1000, chain}, fam{"ladder200", 401, ladder(200)}, fam{"complete80", 80, complete})
	}
	for _, f := range fams {
		for back := 0; back < 4; back++ {
			adj := f.adj(f.n)
			id := fmt.Sprintf("C07/scaling/%s", f.name)
			switch back {
			case 1: // bottom -> top
				adj[f.n-1] = append(adj[f.n-1], 0)
				id += "/back=bottom-top"
			case 2: // middle self-reaching: middle -> its own predecessor region (node 1 or middle)
				m := f.n / 2
				adj[f.n-1] = append(adj[f.n-1], m)
				id += "/back=bottom-middle"
			case 3: // cycle not containing the root: last node -> node 1
				if f.n < 3 {
					continue
				}
				adj[f.n-1] = append(adj[f.n-1], f.n-2)
				if !reaches(adj, f.n-2, f.n-1) {
					continue
				}
				id += "/back=bottom-prev"
			}
			prog := graphProgram(f.n, adj, make([]int, f.n), 0, true)
			out = append(out, caseFromProgram(id, prog, true, nil))
			// the same shape with every node reached through a binding / a field selection / a struct provider
			if back == 0 && (strings.HasPrefix(f.name, "ladder") || strings.HasPrefix(f.name, "complete")) && f.n <= 130 {
				for _, kind := range []int{NBound, NField, NStruct} {
					kinds := make([]int, f.n)
					for i := range kinds {
						kinds[i] = kind
					}
					prog := graphProgram(f.n, f.adj(f.n), kinds, 0, true)
					// struct providers nest their fields: the run-time description of a diamond ladder would have 2^depth
					// parts, so those are judged on wire's verdict (and termination) only
					out = append(out, caseFromProgram(fmt.Sprintf("%s/allkind=%d", id, kind), prog, kind != NStruct, nil))
				}
			}
		}
	}
	return out
}

func reaches(adj [][]int, from, to int) bool {
	seen := map[int]bool{}
	var dfs func(int) bool
	dfs = func(u int) bool {
		if u == to {
			return true
		}
		if seen[u] {
			return false
		}
		seen[u] = true
		for _, v := range adj[u] {
			if dfs(v) {
				return true
			}
		}
		return false
	}
	return dfs(from)
}
