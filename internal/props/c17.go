package props

import (
	"fmt"
	"os/exec"
	"sort"
	"strings"
	"sync"

	"verif/internal/h"
)

func init() { register("C17", "model_checking", checkC17) }

// slot kinds
const (
	kS1 = iota // accepted, has a tag-dependent second injector file
	kS2        // accepted, different shape (cleanup + error)
	kF         // analysis fails (missing provider)
	kN         // no injectors
	kFT        // accepted without tags; with -tags t a further injector file joins whose injector lacks a provider
)

var slotKindNames = []string{"S1", "S2", "F", "N", "FT"}

func slotFiles(dir string, kind int) map[string]string {
	pkg := dir
	foo := strings.Replace(c18Foo, "package app", "package "+pkg, 1)
	hdr := "//go:build wireinject\n// +build wireinject\n\npackage " + pkg + "\n\nimport \"github.com/google/wire\"\n\n"
	switch kind {
	case kS1:
		return map[string]string{
			dir + "/foo.go":    foo,
			dir + "/wire.go":   hdr + "func InitSvc() *Svc {\n\tpanic(wire.Build(NewCfg, NewSvc))\n}\n",
			dir + "/wire_t.go": "//go:build wireinject && t\n// +build wireinject,t\n\npackage " + pkg + "\n\nimport \"github.com/google/wire\"\n\nfunc InitTagged() (*Svc, func(), error) {\n\tpanic(wire.Build(NewCfg, NewSvcE))\n}\n",
		}
	case kS2:
		// this kind spells the import of wire as a raw string literal
		hdr := strings.Replace(hdr, "\"github.com/google/wire\"", "`github.com/google/wire`", 1)
		return map[string]string{
			dir + "/foo.go":  foo,
			dir + "/wire.go": hdr + "func InitSvc() (*Svc, func(), error) {\n\tpanic(wire.Build(NewCfg, NewSvcE))\n}\n\nfunc InitCfg() Cfg {\n\tpanic(wire.Build(NewCfg))\n}\n",
		}
	case kF:
		return map[string]string{
			dir + "/foo.go":  foo,
			dir + "/wire.go": hdr + "func InitSvc() *Svc {\n\tpanic(wire.Build(NewSvc))\n}\n",
		}
	case kFT:
		return map[string]string{
			dir + "/foo.go":    foo,
			dir + "/wire.go":   hdr + "func InitSvc() *Svc {\n\tpanic(wire.Build(NewCfg, NewSvc))\n}\n",
			dir + "/wire_t.go": "//go:build wireinject && t\n// +build wireinject,t\n\npackage " + pkg + "\n\nimport \"github.com/google/wire\"\n\nfunc InitBroken() *Svc {\n\tpanic(wire.Build(NewSvc))\n}\n",
		}
	default:
		// no injectors, but a blank import (which wire carries over into outputs it does write)
		return map[string]string{dir + "/foo.go": foo, dir + "/blank.go": "package " + pkg + "\n\nimport _ \"embed\"\n"}
	}
}

// c17Cgo: a package that uses cgo (its compiled file list contains generated files outside the package directory)
// next to a plain one; gen, diff, check and show must treat it like any other package.
func c17Cgo(c *h.Check) {
	if _, err := exec.LookPath("gcc"); err != nil {
		c.Coverage["cgo_scenario"] = "skipped: no C compiler"
		return
	}
	d := c.S.Dir("cgo")
	h.WriteFiles(d, h.ModuleFiles("example.com/m"))
	files := slotFiles("plain", kS1)
	for p, cnt := range slotFiles("capp", kS2) {
		files[p] = cnt
	}
	files["capp/native.go"] = "package capp\n\n/*\nstatic int forty_two(void) { return 42; }\n*/\nimport \"C\"\n\nfunc Native() int { return int(C.forty_two()) }\n"
	h.WriteFiles(d, files)
	env := h.BaseEnv("GOCACHE="+c.S.GoCache, "CGO_ENABLED=1")
	before := h.ReadTree(d)
	bad := func(sym, format string, a ...interface{}) {
		c.AddViolation(h.Violation{CaseID: "C17/cgo-package", Symptom: sym, Detail: fmt.Sprintf(format, a...)}, nil, map[string]interface{}{"files": files})
	}
	r := h.RunLimited(d, env, 300e9, h.WireMemKB, c.S.Wire, "gen", "./capp", "./plain")
	after := h.ReadTree(d)
	if r.TimedOut {
		c.Coverage["cgo_scenario"] = "skipped: the C toolchain did not finish in time"
		return
	}
	if strings.Contains(r.Stderr, "cgo") && strings.Contains(r.Stderr, "exec") {
		c.Coverage["cgo_scenario"] = "skipped: cgo cannot run here: " + clip(r.Stderr, 200)
		return
	}
	diff := before.Diff(after)
	sort.Strings(diff)
	if r.Exit != 0 {
		bad("gen-status", "gen exits %d on two well-formed packages of which one uses cgo:\n%s", r.Exit, clip(r.Stderr, 1200))
	}
	if want := []string{"created:capp/wire_gen.go", "created:plain/wire_gen.go"}; fmt.Sprint(diff) != fmt.Sprint(want) {
		bad("footprint", "gen changed %v, want %v\n%s", diff, want, clip(r.Stderr, 800))
	}
	for _, sub := range []string{"diff", "check", "show"} {
		r2 := h.RunLimited(d, env, 300e9, h.WireMemKB, c.S.Wire, sub, "./capp", "./plain")
		if r2.Exit != 0 && r.Exit == 0 {
			bad(sub+"-status", "%s right after a successful gen exits %d:\n%s", sub, r2.Exit, clip(r2.Stdout+r2.Stderr, 800))
		}
		if ch := after.Diff(h.ReadTree(d)); len(ch) > 0 {
			bad("readonly-command-writes", "%s changed the tree: %v", sub, ch)
		}
	}
	c.Coverage["cgo_scenario"] = "ran: gen/diff/check/show on a cgo package next to a plain one"
}

type c17Meta struct {
	kinds []int
}

type c17Opt struct {
	name   string
	args   []string
	key    string // which fresh table: "", "hdr", "tags"
	prefix string
	usable bool
}

var (
	c17GenOpts = []c17Opt{
		{"none", nil, "", "", true},
		{"header", []string{"-header_file", "hdr.txt"}, "hdr", "", true},
		{"header-missing", []string{"-header_file", "nope.txt"}, "", "", false},
		{"header-is-directory", []string{"-header_file", "hdrdir"}, "", "", false},
		{"prefix", []string{"-output_file_prefix", "p_"}, "", "p_", true},
		{"tags", []string{"-tags", "t"}, "tags", "", true},
		// explored in the first two steps of a history only (see Ops)
		{"header-big", []string{"-header_file", "bighdr.txt"}, "bighdr", "", true},
		{"tags-comma", []string{"-tags", "t,u"}, "", "", false}, // the go command refuses comma-separated tag lists
	}
)

const c17Header = "// Copyright header line.\n// Second line.\n\n"

// c17BigHeader: a licence text of about 1.7 KB as line comments (longer than any look-ahead window)
var c17BigHeader = func() string {
	var sb strings.Builder
	for i := 0; i < 24; i++ {
		fmt.Fprintf(&sb, "// Licence line %02d: redistribution and use in source and binary forms ...\n", i)
	}
	sb.WriteString("\n")
	return sb.String()
}()

func checkC17(c *h.Check) {
	thorough := c.Tier == "thorough"
	nslots := 2
	depth := 4
	if thorough {
		nslots, depth = 3, 4
	}
	ex := &h.FSExplorer{S: c.S, ModPath: "example.com/m", MaxDepth: depth}
	dirs := []string{"s0", "s1", "s2"}[:nslots]
	// reference outputs: gen from scratch of each accepted package alone, per option key
	var fmu sync.Mutex
	fresh := map[string]string{}
	freshOf := func(slot, kind int, key string) string {
		k := fmt.Sprintf("%d/%d/%s", slot, kind, key)
		fmu.Lock()
		defer fmu.Unlock()
		if v, ok := fresh[k]; ok {
			return v
		}
		d := c.S.Dir("fresh")
		h.WriteFiles(d, h.ModuleFiles(ex.ModPath))
		h.WriteFiles(d, slotFiles(dirs[slot], kind))
		h.WriteFiles(d, map[string]string{"hdr.txt": c17Header, "bighdr.txt": c17BigHeader})
		argv := []string{c.S.Wire, "gen"}
		switch key {
		case "hdr":
			argv = append(argv, "-header_file", "hdr.txt")
		case "bighdr":
			argv = append(argv, "-header_file", "bighdr.txt")
		case "tags":
			argv = append(argv, "-tags", "t")
		}
		argv = append(argv, "./...")
		r := h.RunLimited(d, h.BaseEnv("GOCACHE="+c.S.GoCache), 60e9, h.WireMemKB, argv...)
		t := h.ReadTree(d)
		out := t[dirs[slot]+"/wire_gen.go"]
		if r.Exit != 0 || out == "" {
			c.Internalf("reference generation failed for slot %d kind %s key %q: %s", slot, slotKindNames[kind], key, r.Stderr)
		}
		fresh[k] = out
		return out
	}
	// initial states: every assignment of kinds to slots x prior content of the output files
	var initial []*h.FSState
	var rec func(i int, kinds []int)
	rec = func(i int, kinds []int) {
		if i == nslots {
			ks := append([]int{}, kinds...)
			// prior content of each slot's output file, chosen independently per slot:
			// 0 absent, 1 identical to what gen would write, 2 unrelated stale content,
			// 3 identical plus trailing bytes, 4 a truncated prefix of the identical content
			nprior := 5
			total := 1
			for range ks {
				total *= nprior
			}
			for pv := 0; pv < total; pv++ {
				t := h.Tree{"hdr.txt": c17Header, "bighdr.txt": c17BigHeader, "hdrdir/keep.txt": "a directory, not a header file\n"}
				var pn []string
				x := pv
				skip := false
				for s, k := range ks {
					prior := x % nprior
					x /= nprior
					pn = append(pn, fmt.Sprint(prior))
					for p, cnt := range slotFiles(dirs[s], k) {
						t[p] = cnt
					}
					if k == kN {
						if prior != 0 {
							skip = true
						}
						continue
					}
					stale := "//go:build !wireinject\n\npackage " + dirs[s] + "\n\n// stale output\nfunc stale() {}\n"
					switch prior {
					case 1, 3, 4:
						if k == kF {
							if prior != 1 {
								skip = true
							}
							t[dirs[s]+"/wire_gen.go"] = stale
							break
						}
						f := freshOf(s, k, "")
						switch prior {
						case 3:
							f += "\n// trailing bytes left over from a longer previous output\nfunc leftover() {}\n"
						case 4:
							f = f[:len(f)*2/3]
						}
						t[dirs[s]+"/wire_gen.go"] = f
					case 2:
						t[dirs[s]+"/wire_gen.go"] = stale
					}
				}
				if skip {
					continue
				}
				var kn []string
				for _, k := range ks {
					kn = append(kn, slotKindNames[k])
				}
				initial = append(initial, &h.FSState{Tree: t, Meta: &c17Meta{kinds: ks}, Path: []string{fmt.Sprintf("init[%s;prior=%s]", strings.Join(kn, ","), strings.Join(pn, ","))}})
			}
			return
		}
		for k := 0; k < 5; k++ {
			if !thorough && i > 0 && k < kinds[i-1] && !(k == kF || kinds[i-1] == kF) {
				continue // quick: unordered slot assignments, except that a failing package is tried in every position
			}
			rec(i+1, append(kinds, k))
		}
	}
	rec(0, nil)
	ex.Ops = func(s *h.FSState) []h.FSOp {
		var ops []h.FSOp
		late := func(o c17Opt) bool { return (o.name == "header-big" || o.name == "tags-comma") && s.Depth > 1 }
		for _, o := range c17GenOpts {
			if late(o) {
				continue
			}
			ops = append(ops, h.FSOp{Name: "gen:" + o.name, Argv: append(append([]string{"gen"}, o.args...), "./...")})
		}
		ops = append(ops, h.FSOp{Name: "gen:default-command", Argv: []string{"./..."}})
		for _, o := range c17GenOpts {
			if o.prefix != "" || late(o) {
				continue
			}
			ops = append(ops, h.FSOp{Name: "diff:" + o.name, Argv: append(append([]string{"diff"}, o.args...), "./...")})
		}
		ops = append(ops,
			h.FSOp{Name: "gen:with-missing-dir", Argv: []string{"gen", "./s0", "./nonexistent"}},
			h.FSOp{Name: "gen:only-missing-dir", Argv: []string{"gen", "./nonexistent"}},
			h.FSOp{Name: "gen:empty-dir", Argv: []string{"gen", "./hdrdir"}},
			h.FSOp{Name: "diff:only-missing-dir", Argv: []string{"diff", "./nonexistent"}},
			h.FSOp{Name: "check:only-missing-dir", Argv: []string{"check", "./nonexistent"}},
		)
		ops = append(ops,
			h.FSOp{Name: "check:none", Argv: []string{"check", "./..."}},
			h.FSOp{Name: "check:tags", Argv: []string{"check", "-tags", "t", "./..."}},
			h.FSOp{Name: "show:none", Argv: []string{"show", "./..."}},
			h.FSOp{Name: "show:tags", Argv: []string{"show", "-tags", "t", "./..."}},
		)
		return ops
	}
	optOf := func(name string) c17Opt {
		n := name[strings.Index(name, ":")+1:]
		if n == "default-command" {
			return c17GenOpts[0]
		}
		for _, o := range c17GenOpts {
			if o.name == n {
				return o
			}
		}
		return c17GenOpts[0]
	}
	ex.Invariant = func(s *h.FSState, op h.FSOp, o *h.FSOutcome, after h.Tree, dir string, run func(argv ...string) h.FSOutcome) []h.Violation {
		var vs []h.Violation
		meta := s.Meta.(*c17Meta)
		bad := func(sym, format string, a ...interface{}) {
			vs = append(vs, h.Violation{Symptom: sym, Detail: fmt.Sprintf("op %s: ", op.Name) + fmt.Sprintf(format, a...) + "\nstderr: " + clip(o.Stderr, 600)})
		}
		if o.Crashed || o.TimedOut {
			bad("crash", "wire crashed or hung")
			return vs
		}
		d := s.Tree.Diff(after)
		hasF := false
		for _, k := range meta.kinds {
			if k == kF {
				hasF = true
			}
		}
		cmd := op.Name[:strings.Index(op.Name, ":")]
		opt := optOf(op.Name)
		tagged := strings.HasSuffix(op.Name, ":tags")
		for _, k := range meta.kinds {
			if k == kFT && tagged {
				hasF = true
			}
		}
		if strings.HasSuffix(op.Name, "-missing-dir") || strings.HasSuffix(op.Name, ":empty-dir") {
			// a pattern that names no loadable package: an error, never a silent success
			want := 1
			if cmd == "diff" {
				want = 2
			}
			if o.Exit == 0 || (cmd == "diff" && o.Exit != want) {
				bad(cmd+"-status", "%s with a pattern that matches no loadable package exited %d", cmd, o.Exit)
			}
			if strings.TrimSpace(o.Stderr) == "" {
				bad(cmd+"-silent", "no diagnostic for a pattern that matches no loadable package")
			}
			if cmd != "gen" && len(d) > 0 {
				bad("readonly-command-writes", "%s changed the tree: %v", cmd, d)
			}
			if cmd == "gen" {
				for _, x := range d {
					if !strings.HasSuffix(x, "wire_gen.go") {
						bad("gen-footprint", "gen touched %s", x)
					}
				}
			}
			return vs
		}
		switch cmd {
		case "gen":
			if !opt.usable {
				if o.Exit == 0 {
					bad("gen-status", "gen with an unusable header file exited 0")
				}
				if len(d) > 0 {
					bad("gen-footprint", "gen with an unusable option changed the tree: %v", d)
				}
				return vs
			}
			if (o.Exit == 0) == hasF {
				bad("gen-status", "gen exit %d with failing package present=%v", o.Exit, hasF)
			}
			allowed := map[string]bool{}
			for sl, k := range meta.kinds {
				target := dirs[sl] + "/" + opt.prefix + "wire_gen.go"
				if k == kFT && opt.key == "tags" {
					continue // fails under the tag: its file must stay as it was (checked by the footprint rule)
				}
				switch k {
				case kS1, kS2, kFT:
					allowed[target] = true
					if after[target] != freshOf(sl, k, opt.key) {
						bad("gen-output", "%s is not what generating package %s alone from scratch gives (a failing or other package influenced it, or it was not written)", target, dirs[sl])
					}
				}
			}
			for _, x := range d {
				p := x[strings.Index(x, ":")+1:]
				if !allowed[p] {
					bad("gen-footprint", "gen touched %s", x)
				}
			}
		case "diff":
			if len(d) > 0 {
				bad("readonly-command-writes", "diff changed the tree: %v", d)
			}
			want := 0
			switch {
			case !opt.usable, hasF:
				want = 2
			default:
				for sl, k := range meta.kinds {
					if k == kS1 || k == kS2 || k == kFT {
						if s.Tree[dirs[sl]+"/wire_gen.go"] != freshOf(sl, k, opt.key) {
							want = 1
						}
					}
				}
			}
			if o.Exit != want {
				bad("diff-status", "diff exit %d, want %d", o.Exit, want)
			}
		case "check", "show":
			if len(d) > 0 {
				bad("readonly-command-writes", "%s changed the tree: %v", cmd, d)
			}
			if (o.Exit == 0) == hasF {
				bad(cmd+"-status", "%s exit %d with failing package present=%v", cmd, o.Exit, hasF)
			}
			if cmd == "show" && !hasF {
				// the injectors listed are those of the analysed configuration: the tag-dependent one exactly under -tags
				for sl, k := range meta.kinds {
					if k != kS1 {
						continue
					}
					name := "\"" + ex.ModPath + "/" + dirs[sl] + "\".InitTagged"
					if strings.Contains(o.Stdout, name) != tagged {
						bad("show-tags", "show (tags=%v) lists the tag-dependent injector %s: %v", tagged, name, strings.Contains(o.Stdout, name))
					}
				}
			}
		}
		return vs
	}
	if c.Only == "C17/cgo-package" {
		c17Cgo(c)
		c.Coverage["states"], c.Coverage["transitions"], c.Coverage["traces_validated_against_impl"] = 1, 1, 1
		return
	}
	if c.Only != "" {
		// replay of one recorded history, without the explorer
		rvs, err := ex.Replay(initial, c.Only)
		if err != nil {
			c.Internalf("replay: %v", err)
		}
		for _, v := range rvs {
			c.AddViolation(v, nil, map[string]interface{}{"history": v.CaseID})
		}
		c.Coverage["states"], c.Coverage["transitions"], c.Coverage["traces_validated_against_impl"] = 1, 1, 1
		c.Samples = append(c.Samples, c.Only)
		return
	}
	c17Cgo(c)
	vs := ex.Explore(initial, c.Deadline)
	sort.Slice(vs, func(i, j int) bool { return len(vs[i].CaseID) < len(vs[j].CaseID) })
	for _, v := range vs {
		c.AddViolation(v, nil, map[string]interface{}{"history": v.CaseID})
	}
	// depth-bounded by design: not a closure
	c.Coverage["states"] = ex.States
	c.Coverage["transitions"] = ex.Transitions
	c.Coverage["traces_validated_against_impl"] = ex.Transitions
	c.Coverage["wire_invocations_fs"] = ex.Invocations
	c.Coverage["depth_bound"] = depth
	c.Coverage["closure_reached"] = ex.Closed
	c.Coverage["initial_states"] = len(initial)
	c.Coverage["evaluations"] = ex.Transitions
	c.Coverage["distinct_nontrivial"] = ex.States
	c.Coverage["rule"] = fmt.Sprintf("explicit-state BFS (states = module trees by hash) from every assignment of package kinds {S1 accepted with a tag-dependent injector file, S2 accepted, F analysis fails, N no injectors but a blank import, FT fails only under -tags t} to %d package slots x prior output content chosen per slot {absent, identical, stale, identical plus trailing bytes, truncated prefix}; transitions: gen x {no option, -header_file readable, -header_file missing, -header_file naming a directory, -output_file_prefix, -tags, default-command form; in the first two steps also a 1.7 KB header and a comma-separated -tags list, which the go command refuses}, diff x {none, header, header missing, tags}, check and show x {none, tags}; gen/diff/check with patterns naming a missing or an empty directory; chained to depth %d. Reference contract evaluated on every transition: exit status rules, exact file footprint, outputs equal to generating each package alone from scratch, read-only commands leave the tree hash unchanged, diff 0/1/2.", nslots, depth)
	c.Samples = append(c.Samples, map[string]interface{}{"initial": initial[len(initial)/2].Path, "ops": []string{"gen:header", "diff:none", "check:tags"}})
	c.Assumptions = append(c.Assumptions, "a failing package is one whose Wire analysis fails; packages that do not type-check abort the whole load by design and are outside the alphabet", "reference output = the same binary generating the package alone from scratch (differential)")
	if ex.Cut {
		// the time budget ran out inside a level: levels below MaxDepthSeen are complete, the last one is not
		c.Exhaustive = false
		c.Coverage["budget_cut_inside_depth"] = ex.MaxDepthSeen
		c.Coverage["exhaustive_within_depth_bound"] = false
	} else if !ex.Closed {
		// depth bound reached: everything within the bound was explored
		c.Coverage["exhaustive_within_depth_bound"] = true
	}
}
