package props

import (
	"fmt"
	"strings"

	"verif/internal/h"
	"verif/internal/ir"
)

func init() { register("C12", "model_checking", checkC12) }

type structShape struct {
	name   string
	fields []struct {
		name, tag string
		embedded  bool
	}
}

func c12Shapes() []structShape {
	f := func(name, tag string, emb bool) struct {
		name, tag string
		embedded  bool
	} {
		return struct {
			name, tag string
			embedded  bool
		}{name, tag, emb}
	}
	return []structShape{
		{"mixed", []struct {
			name, tag string
			embedded  bool
		}{f("A", "", false), f("b", "", false), f("TEmb", "", true), f("D", `wire:"-"`, false)}},
		{"casepair", []struct {
			name, tag string
			embedded  bool
		}{f("Foo", `json:"foo"`, false), f("foo", "", false), f("E", `json:"e" wire:"-"`, false), f("Z", "", false)}},
		{"casepair-rev", []struct {
			name, tag string
			embedded  bool
		}{f("foo", "", false), f("Foo", "", false), f("FOO", "", false)}},
		{"casepair-prevented-first", []struct {
			name, tag string
			embedded  bool
		}{f("name", `wire:"-"`, false), f("Name", "", false), f("NAME", `json:"n" wire:"-"`, false), f("Pool", "", false)}},
		{"other-tags-with-dash", []struct {
			name, tag string
			embedded  bool
		}{f("DB", "", false), f("Log", `json:"-"`, false), f("Aux", `yaml:"-" wire:"x"`, false), f("Off", `json:"-" wire:"-"`, false)}},
		{"single", []struct {
			name, tag string
			embedded  bool
		}{f("A", "", false)}},
	}
}

// buildAgg declares the struct and one function provider per field type.
func buildAgg(b *ir.Builder, sh structShape) (*ir.Type, []*ir.Item) {
	p := b.Root
	agg := b.Agg(p, "S")
	var provs []*ir.Item
	for i, fd := range sh.fields {
		tn := fmt.Sprintf("T%d", i)
		if fd.embedded {
			tn = fd.name
		}
		ft := b.Leaf(p, tn)
		agg.Fields = append(agg.Fields, &ir.Field{Name: fd.name, T: ft, Tag: fd.tag, Embedded: fd.embedded})
		provs = append(provs, ir.FuncItem(&ir.Func{Pkg: p, Name: fmt.Sprintf("PF%d", i), Out: ft}))
	}
	return agg, provs
}

func checkC12(c *h.Check) {
	var cases []*h.Case
	kinds := tally{}
	add := func(id string, prog *ir.Program) {
		cs := &h.Case{ID: id, Files: ir.Render(prog, true), Drive: true,
			Judge: judgeProgramF(prog, true, map[string]bool{"wiring": true}, map[string]bool{"bad-field": true})}
		if !c.NoteProgram(cs.Files) {
			return
		}
		w := ir.NewModel().Solve(prog.Injectors[0])
		if len(w.Reasons) > 0 {
			kinds.inc("model:" + w.Reasons[0].Class)
		} else {
			kinds.inc("model:accept")
		}
		cases = append(cases, cs)
	}
	for _, sh := range c12Shapes() {
		nf := len(sh.fields)
		// ---- wire.Struct: every subset of names, "*", one unknown name; consumers S, *S, both ----
		for sub := 0; sub <= 1<<uint(nf)+3; sub++ {
			for cons := 0; cons < 3; cons++ {
				b := ir.NewBuilder()
				p := b.Root
				agg, provs := buildAgg(b, sh)
				var names []string
				label := ""
				switch {
				case sub == 1<<uint(nf):
					names = []string{"*"}
					label = "star"
				case sub == 1<<uint(nf)+1:
					names = []string{"Nope"}
					label = "unknown"
				case sub == 1<<uint(nf)+2:
					names = []string{"*", "Nope"}
					label = "star-then-unknown"
				case sub == 1<<uint(nf)+3:
					names = []string{"*", sh.fields[0].name}
					label = "star-then-name"
				default:
					for i := 0; i < nf; i++ {
						if sub&(1<<uint(i)) != 0 {
							names = append(names, sh.fields[i].name)
						}
					}
					label = fmt.Sprintf("subset=%d", sub)
				}
				r := b.Leaf(p, "R")
				var deps []*ir.Type
				switch cons {
				case 0:
					deps = []*ir.Type{agg}
				case 1:
					deps = []*ir.Type{ir.Ptr(agg)}
				default:
					deps = []*ir.Type{agg, ir.Ptr(agg)}
				}
				items := []*ir.Item{ir.StructItem(agg, names...), ir.SetRef(&ir.Set{Pkg: p, Name: "FieldSet", Items: provs}), ir.FuncItem(&ir.Func{Pkg: p, Name: "PR", Params: deps, Out: r})}
				if len(names) == 0 {
					// no field selected: the field providers are not needed at all
					items = []*ir.Item{ir.StructItem(agg), ir.FuncItem(&ir.Func{Pkg: p, Name: "PR", Params: deps, Out: r})}
				}
				inj := &ir.Injector{Name: "Init", Out: r, Items: items}
				prog := &ir.Program{Root: p, Injectors: []*ir.Injector{inj}}
				// when a selection uses no provider of FieldSet the set is unused: expected by the model too
				add(fmt.Sprintf("C12/struct/%s/%s/cons=%d", sh.name, label, cons), prog)
			}
		}
		// ---- wire.FieldsOf: every non-empty subset, value / pointer parent, value / pointer consumers ----
		for sub := 1; sub <= 1<<uint(nf); sub++ {
			for ptrParent := 0; ptrParent < 2; ptrParent++ {
				for ptrCons := 0; ptrCons < 3; ptrCons++ {
					if ptrCons > 0 && ptrParent == 0 {
						// pointer-to-field from a value parent must be missing: one probe per subset
						if ptrCons == 2 {
							continue
						}
					}
					b := ir.NewBuilder()
					p := b.Root
					agg, _ := buildAgg(b, sh)
					var names []string
					label := fmt.Sprintf("subset=%d", sub)
					if sub == 1<<uint(nf) {
						names = []string{"Nope"}
						label = "unknown"
					} else {
						for i := 0; i < nf; i++ {
							if sub&(1<<uint(i)) != 0 {
								names = append(names, sh.fields[i].name)
							}
						}
					}
					var parent *ir.Type = agg
					if ptrParent == 1 {
						parent = ir.Ptr(agg)
					}
					r := b.Leaf(p, "R")
					var deps []*ir.Type
					extra := ""
					for k, n := range names {
						fd := agg.FieldByName(n)
						if fd == nil {
							deps = append(deps, b.Leaf(p, "TNope"))
							continue
						}
						switch ptrCons {
						case 0:
							deps = append(deps, fd.T)
						case 1:
							deps = append(deps, ir.Ptr(fd.T))
						case 2:
							// both the pointer and the parent: the pointer must alias the field inside the parent
							deps = append(deps, ir.Ptr(fd.T))
							_ = k
						}
					}
					if ptrCons == 2 {
						deps = append(deps, parent)
						// a{k} are the field pointers, a{len(names)} is the parent pointer
						for k, n := range names {
							if agg.FieldByName(n) == nil {
								continue
							}
							extra += fmt.Sprintf("if a%d != &a%d.%s { vt.Note(\"FAIL pointer to field %s does not alias the field of the provided struct\") }; ", k, len(names), n, n)
						}
						// write through the first pointer and read it back through the parent
						if fd := agg.FieldByName(names[0]); fd != nil {
							extra += fmt.Sprintf("a0.ID = 777; if a%d.%s.ID != 777 { vt.Note(\"FAIL write through the field pointer is not visible in the struct\") }", len(names), names[0])
						}
					}
					items := []*ir.Item{
						ir.FuncItem(&ir.Func{Pkg: p, Name: "PS", Out: parent}),
						ir.FieldsOfItem(agg, ptrParent == 1, names...),
						ir.FuncItem(&ir.Func{Pkg: p, Name: "PR", Params: deps, Out: r, Extra: extra}),
					}
					inj := &ir.Injector{Name: "Init", Out: r, Items: items}
					add(fmt.Sprintf("C12/fieldsof/%s/%s/ptrparent=%d/ptrcons=%d", sh.name, label, ptrParent, ptrCons), &ir.Program{Root: p, Injectors: []*ir.Injector{inj}})
					// the same with the struct handed in as an injector argument instead of provided by a function
					inj2 := &ir.Injector{Name: "Init", Out: r, Params: []ir.Param{{Name: "s", T: parent}}, Items: items[1:]}
					add(fmt.Sprintf("C12/fieldsof-param/%s/%s/ptrparent=%d/ptrcons=%d", sh.name, label, ptrParent, ptrCons), &ir.Program{Root: p, Injectors: []*ir.Injector{inj2}})
				}
			}
		}
	}
	// the value and the pointer form of one wire.Struct provider consumed in one injector by two different providers:
	// the one holding the pointer writes through it (listed and unlisted fields); the struct value handed to the other
	// one must not see those writes (two separately built structs), in both argument orders of the last provider
	for _, sel := range [][]string{{"A"}, {"*"}, {}} {
		for order := 0; order < 2; order++ {
			b := ir.NewBuilder()
			p := b.Root
			agg, provs := buildAgg(b, c12Shapes()[0])
			mid, r := b.Leaf(p, "Mid"), b.Leaf(p, "R")
			pmid := ir.FuncItem(&ir.Func{Pkg: p, Name: "PMid", Params: []*ir.Type{ir.Ptr(agg)}, Out: mid, Extra: "a0.A.ID = 4242; a0.D.ID = 4243"})
			si, mi := 0, 1
			deps := []*ir.Type{agg, mid}
			if order == 1 {
				si, mi = 1, 0
				deps = []*ir.Type{mid, agg}
			}
			_ = mi
			pr := ir.FuncItem(&ir.Func{Pkg: p, Name: "PR", Params: deps, Out: r, Extra: fmt.Sprintf("if a%d.A.ID == 4242 || a%d.D.ID == 4243 { vt.Note(\"FAIL the struct value shares its storage with the pointer form of the same provider\") }", si, si)})
			items := []*ir.Item{ir.StructItem(agg, sel...), pmid, pr}
			if len(sel) > 0 {
				items = append(items, ir.SetRef(&ir.Set{Pkg: p, Name: "FieldSet", Items: provs}))
			}
			inj := &ir.Injector{Name: "Init", Out: r, Items: items}
			add(fmt.Sprintf("C12/struct-both-forms-independent/sel=%s/order=%d", strings.Join(sel, "+"), order), &ir.Program{Root: p, Injectors: []*ir.Injector{inj}})
		}
	}
	for order := 0; order < 2; order++ {
		for ptr := 0; ptr < 2; ptr++ {
			add(fmt.Sprintf("C12/two-selections/order=%d/ptr=%d", order, ptr), twoSelectionsProgram(order, ptr == 1))
		}
	}
	// a struct with a field of type *T next to a field of type T: from a pointer parent the second one also yields *T.
	// Each selected type is read from the field that was named, never from its neighbour: both named means two
	// sources for *T (rejected), one named means that one.
	for v, names := range [][]string{{"Fallback", "Limits"}, {"Limits", "Fallback"}, {"Fallback"}, {"Limits"}} {
		for ptrParent := 0; ptrParent < 2; ptrParent++ {
			b := ir.NewBuilder()
			p := b.Root
			lim := b.Leaf(p, "Limits")
			cfgT := b.Agg(p, "Config", &ir.Field{Name: "Fallback", T: ir.Ptr(lim)}, &ir.Field{Name: "Limits", T: lim})
			var parent *ir.Type = cfgT
			if ptrParent == 1 {
				parent = ir.Ptr(cfgT)
			}
			r := b.Leaf(p, "R")
			var deps []*ir.Type
			for _, n := range names {
				if n == "Fallback" {
					deps = append(deps, ir.Ptr(lim))
				} else if len(names) == 2 || ptrParent == 0 {
					deps = append(deps, lim)
				} else {
					deps = append(deps, ir.Ptr(lim)) // the pointer to the field Limits
				}
			}
			inj := &ir.Injector{Name: "Init", Out: r, Items: []*ir.Item{
				ir.FuncItem(&ir.Func{Pkg: p, Name: "PS", Out: parent}),
				ir.FieldsOfItem(cfgT, ptrParent == 1, names...),
				ir.FuncItem(&ir.Func{Pkg: p, Name: "PR", Params: deps, Out: r}),
			}}
			add(fmt.Sprintf("C12/fieldsof-ptr-and-value-field/names=%d/ptrparent=%d", v, ptrParent), &ir.Program{Root: p, Injectors: []*ir.Injector{inj}})
		}
	}
	// fields of reference-like types (pointer, slice) selected from a pointer parent: the pointer to the field is
	// provided just as for any other field
	for v, fk := range []string{"ptr", "slice", "leaf"} {
		for cons := 0; cons < 3; cons++ { // 0 the field value, 1 the pointer to the field, 2 both
			b := ir.NewBuilder()
			p := b.Root
			lg := b.Leaf(p, "Logger")
			var ft *ir.Type
			switch fk {
			case "ptr":
				ft = ir.Ptr(lg)
			case "slice":
				ft = ir.Slice(lg)
			default:
				ft = lg
			}
			cfgT := b.Agg(p, "Config", &ir.Field{Name: "L", T: ft}, &ir.Field{Name: "N", T: b.Leaf(p, "Name")})
			r := b.Leaf(p, "R")
			var deps []*ir.Type
			if cons != 1 {
				deps = append(deps, ft)
			}
			if cons != 0 {
				deps = append(deps, ir.Ptr(ft))
			}
			inj := &ir.Injector{Name: "Init", Out: r, Items: []*ir.Item{
				ir.FuncItem(&ir.Func{Pkg: p, Name: "PS", Out: ir.Ptr(cfgT)}),
				ir.FieldsOfItem(cfgT, true, "L"),
				ir.FuncItem(&ir.Func{Pkg: p, Name: "PR", Params: deps, Out: r}),
			}}
			add(fmt.Sprintf("C12/fieldsof-reference-typed-field/kind=%d/cons=%d", v, cons), &ir.Program{Root: p, Injectors: []*ir.Injector{inj}})
		}
	}
	// fields selected from two different parents in one injector, the second parent having an unlisted field named
	// and typed like a field listed for the first: every selection reads from its own parent
	for ptr := 0; ptr < 2; ptr++ {
		for order := 0; order < 2; order++ {
			b := ir.NewBuilder()
			p := b.Root
			dsn, lag := b.Leaf(p, "DSN"), b.Leaf(p, "Lag")
			prim := b.Agg(p, "Primary", &ir.Field{Name: "DSN", T: dsn})
			repl := b.Agg(p, "Replica", &ir.Field{Name: "DSN", T: dsn}, &ir.Field{Name: "Lag", T: lag})
			var primT, replT *ir.Type = prim, repl
			if ptr == 1 {
				primT, replT = ir.Ptr(prim), ir.Ptr(repl)
			}
			r := b.Leaf(p, "R")
			deps := []*ir.Type{dsn, lag}
			if ptr == 1 {
				deps = []*ir.Type{dsn, ir.Ptr(dsn), lag}
			}
			f1, f2 := ir.FieldsOfItem(prim, ptr == 1, "DSN"), ir.FieldsOfItem(repl, ptr == 1, "Lag")
			items := []*ir.Item{ir.FuncItem(&ir.Func{Pkg: p, Name: "PPrimary", Out: primT}), ir.FuncItem(&ir.Func{Pkg: p, Name: "PReplica", Out: replT})}
			if order == 0 {
				items = append(items, f1, f2)
			} else {
				items = append(items, f2, f1)
				deps[0], deps[len(deps)-1] = deps[len(deps)-1], deps[0]
			}
			items = append(items, ir.FuncItem(&ir.Func{Pkg: p, Name: "PR", Params: deps, Out: r}))
			add(fmt.Sprintf("C12/fieldsof-two-parents/ptr=%d/order=%d", ptr, order), &ir.Program{Root: p, Injectors: []*ir.Injector{{Name: "Init", Out: r, Items: items}}})
		}
	}
	results := c.JudgeAll(cases)
	stdCoverage(c, cases, results, "pointer- and slice-typed fields selected from a pointer parent (value, pointer to the field, both); fields selected from two parents of which the second has an unlisted namesake; a struct with a *T field next to a T field selected from a value and from a pointer parent (both: two sources for *T; one: that one); four injectors in one package selecting different same-typed fields of one struct; 6 struct shapes (exported/unexported/embedded/prevented fields; tagged fields; pairs and triples of names differing only in letter case) x wire.Struct with every subset of names, \"*\", an unknown name, \"*\" followed by an unknown or a known name x consumers {S, *S, both}; wire.FieldsOf with every non-empty subset and an unknown name x {new(S), new(*S)} x struct {provided by a function, handed in as an injector argument} x consumers of {field type, pointer to field, pointer plus parent with an aliasing probe that compares addresses and writes through the pointer}. Oracle: prevented/unknown names rejected; accepted programs run and the constructed struct is described field by field (selected fields carry the designated identities, all others zero); selected fields equal the parent's fields. Value and pointer form of one wire.Struct provider consumed by two providers of one injector, the pointer holder writing through it: the value must not see the writes. Distinct = distinct rendered source.")
	c.Coverage["model_verdict_classes"] = kinds.summary()
	sampleCase(c, cases, results)
	if kinds["model:accept"] < 50 || kinds["model:bad-field"] < 20 {
		c.Internalf("vacuous: %v", kinds)
	}
}
