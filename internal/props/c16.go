package props

import (
	"fmt"
	"os"
	"path/filepath"
	"regexp"
	"sort"
	"strings"
	"sync"

	"verif/internal/h"
	"verif/internal/maporder"
)

func init() { register("C16", "model_checking", checkC16) }

// richProgram: many imports (two with the same package name), several values, three injectors
// in two files, copied declarations, an anonymous import. variant 1 adds more of each.
func richProgram(variant int) map[string]string {
	files := map[string]string{}
	lib := func(path, name string, n int) {
		var sb strings.Builder
		fmt.Fprintf(&sb, "package %s\n\nimport \"github.com/google/wire\"\n\n", name)
		for i := 0; i < n; i++ {
			fmt.Fprintf(&sb, "type T%d struct{ N int }\n\nfunc New%d() T%d { return T%d{N: %d} }\n\n", i, i, i, i, i)
		}
		fmt.Fprintf(&sb, "var Default = %d\n\nvar Set = wire.NewSet(", n)
		for i := 0; i < n; i++ {
			fmt.Fprintf(&sb, "New%d, ", i)
		}
		sb.WriteString(")\n")
		files[path+"/lib.go"] = sb.String()
	}
	lib("alpha/cfg", "cfg", 2)
	lib("beta/cfg", "cfg", 2)
	lib("gamma", "gamma", 3)
	lib("delta", "delta", 1)
	if variant == 1 {
		lib("eps/v2", "eps", 2)
		lib("zeta", "zeta", 2)
	}
	files["side/side.go"] = "package side\n\nvar Loaded = true\n"
	// a third-party dependency (vendored in the vendor layouts), dot-imported by an injector file and named in a value expression
	files["DEP/dep.go"] = "package dep\n\ntype Config struct {\n\tName  string\n\tLevel int\n}\n\nconst DefaultName = \"dep\"\n\nvar DefaultLevel = 3\n"
	files["app/wire_dep.go"] = `//go:build wireinject
// +build wireinject

package app

import (
	. "example.org/dep"
	"github.com/google/wire"
)

func InitDep() Config {
	panic(wire.Build(wire.Value(Config{Name: DefaultName, Level: DefaultLevel})))
}

var depCopy = Config{Name: DefaultName}
`
	files["app/types.go"] = `package app

import (
	acfg "example.com/m/alpha/cfg"
	bcfg "example.com/m/beta/cfg"
	"example.com/m/delta"
	"example.com/m/gamma"
)

type App struct {
	A acfg.T0
	B bcfg.T0
	G gamma.T1
	D delta.T0
	S string
	N int
}

type Other struct {
	A acfg.T1
	B bcfg.T1
	F float64
}

func NewOther(a acfg.T1, b bcfg.T1, f float64) (*Other, func(), error) {
	return &Other{A: a, B: b, F: f}, func() {}, nil
}

type Third struct {
	G0 gamma.T0
	G2 gamma.T2
	Names []string
}
`
	files["app/wire.go"] = `//go:build wireinject
// +build wireinject

package app

import (
	acfg "example.com/m/alpha/cfg"
	bcfg "example.com/m/beta/cfg"
	"example.com/m/delta"
	"example.com/m/gamma"
	_ "example.com/m/side"
	"github.com/google/wire"
)

func InitApp() App {
	panic(wire.Build(acfg.Set, bcfg.Set, gamma.Set, delta.Set, wire.Value("name"), wire.Value(acfg.Default+bcfg.Default), wire.Struct(new(App), "*")))
}

// helper is copied into the generated file.
func helper(cfg int) int {
	gamma := cfg + delta.Default
	return gamma * 2
}

var copied = map[string]int{"a": acfg.Default, "b": bcfg.Default}

func InitThird() Third {
	panic(wire.Build(gamma.Set, wire.Value([]string{"x", "y"}), wire.Struct(new(Third), "*")))
}
`
	files["app/wire_b.go"] = `//go:build wireinject
// +build wireinject

package app

import (
	acfg "example.com/m/alpha/cfg"
	bcfg "example.com/m/beta/cfg"
	_ "example.com/m/side"
	"github.com/google/wire"
)

func InitOther(scale float64) (*Other, func(), error) {
	panic(wire.Build(acfg.Set, bcfg.Set, NewOther))
}

type local struct{ X, Y int }

const answer = 42
`
	if variant == 1 {
		files["app/wire_c.go"] = `//go:build wireinject
// +build wireinject

package app

import (
	eps "example.com/m/eps/v2"
	"example.com/m/zeta"
	"github.com/google/wire"
)

type Fourth struct {
	E eps.T0
	Z zeta.T1
	M map[string]int
	P *int
}

var num = 7

func InitFourth() (Fourth, error) {
	panic(wire.Build(eps.Set, zeta.Set, wire.Value(map[string]int{"k": zeta.Default}), wire.Value(&num), wire.Struct(new(Fourth), "*")))
}

func InitFourthB(e eps.T0, z zeta.T1) Fourth {
	panic(wire.Build(wire.Value(map[string]int{"k": eps.Default}), wire.Value(&num), wire.Struct(new(Fourth), "*")))
}
`
	}
	// two unrelated packages processed in the same invocation
	// it uses values of the same types and same-named imports as app, so that any table shared between packages shows
	files["other1/o.go"] = "package other1\n\nimport bcfg \"example.com/m/beta/cfg\"\n\ntype X struct {\n\tS string\n\tN int\n\tL []string\n\tB bcfg.T0\n}\n"
	files["other1/wire.go"] = "//go:build wireinject\n// +build wireinject\n\npackage other1\n\nimport (\n\tbcfg \"example.com/m/beta/cfg\"\n\t\"github.com/google/wire\"\n)\n\nfunc InitX() X {\n\tpanic(wire.Build(bcfg.Set, wire.Value(\"other\"), wire.Value(5), wire.Value([]string{\"o\"}), wire.Struct(new(X), \"*\")))\n}\n"
	// aaa is processed before app; it has a package-level identifier cfg, so IT must import alpha/cfg under another name
	files["aaa/o.go"] = "package aaa\n\nimport acfg \"example.com/m/alpha/cfg\"\n\ntype X struct {\n\tS string\n\tN int\n\tA acfg.T0\n}\n\nfunc cfg() {}\n\nfunc gamma() {}\n"
	files["aaa/wire.go"] = "//go:build wireinject\n// +build wireinject\n\npackage aaa\n\nimport (\n\tacfg \"example.com/m/alpha/cfg\"\n\t\"github.com/google/wire\"\n)\n\nfunc InitX() X {\n\tpanic(wire.Build(acfg.Set, wire.Value(\"first\"), wire.Value(9), wire.Struct(new(X), \"*\")))\n}\n"
	files["other2/o.go"] = "package other2\n\nvar V = 1\n"
	return files
}

type layoutDir struct {
	name string
	root string   // where commands run relative paths from (module root)
	env  []string // extra env
}

func checkC16(c *h.Check) {
	thorough := c.Tier == "thorough"
	work := c.S.Dir("maporder")
	inst := filepath.Join(c.S.Root, "wire-instrumented")
	sites, err := maporder.Build(h.RepoDir(), work, inst, h.BaseEnv())
	if err != nil {
		c.Internalf("%v", err)
		return
	}
	var siteList []string
	for _, s := range sites {
		siteList = append(siteList, fmt.Sprintf("%d %s %s range %s (map[%s]%s)", s.ID, s.Pkg, s.Pos, s.Expr, s.Key, s.Val))
	}
	c.Coverage["map_iteration_sites"] = siteList
	modEnv := h.BaseEnv("GOCACHE=" + c.S.GoCache)
	nprog := 1
	if thorough {
		nprog = 2
	}
	const genRel = "app/wire_gen.go"
	var mu sync.Mutex
	runs, schedules := 0, 0
	totalVisits := 0
	viol := func(id, sym, detail string, files map[string]string) {
		c.AddViolation(h.Violation{CaseID: id, Symptom: sym, Detail: detail}, files, nil)
	}
	confMismatch := ""
	// ---------- Part 1: iteration orders ----------
	for pv := 0; pv < nprog+1 && pv < 2; pv++ {
		files := richProgram(pv)
		// one run under a schedule; returns output bytes, exit, visit trace
		runSched := func(sched string) (string, int, string, string) {
			dir := c.S.Dir("mo")
			defer os.RemoveAll(dir)
			writeModuleWithDep(dir, files)
			sp := filepath.Join(dir, ".sched")
			tp := filepath.Join(dir, ".trace")
			os.WriteFile(sp, []byte(sched), 0o644)
			env := append(append([]string{}, modEnv...), "VERIF_SCHED="+sp, "VERIF_TRACE="+tp)
			r := h.RunLimited(dir, env, 120e9, h.WireMemKB, inst, "gen", "./app")
			out, _ := os.ReadFile(filepath.Join(dir, genRel))
			tr, _ := os.ReadFile(tp)
			mu.Lock()
			runs++
			mu.Unlock()
			return string(out), r.Exit, string(tr), r.Stderr
		}
		b0, e0, tr0, se0 := runSched("")
		if e0 != 0 || b0 == "" {
			c.Internalf("baseline generation of rich program %d failed (exit %d): %s", pv, e0, se0)
			return
		}
		// conformance: the un-instrumented binary produces the same bytes
		{
			dir := c.S.Dir("mo")
			writeModuleWithDep(dir, files)
			r := h.RunLimited(dir, modEnv, 120e9, h.WireMemKB, c.S.Wire, "gen", "./app")
			out, _ := os.ReadFile(filepath.Join(dir, genRel))
			os.RemoveAll(dir)
			if r.Exit != 0 || string(out) != b0 {
				// either the rewriting changed more than the order (a bug of this tool) or the plain binary's
				// random map order already changed the output; decided after the exploration below
				confMismatch = fmt.Sprintf("conformance: instrumented (identity order) and plain wire disagree on rich program %d (plain exit %d)", pv, r.Exit)
			}
		}
		// replay determinism: identity schedule twice gives identical bytes and visit trace
		b0b, _, tr0b, _ := runSched("")
		if b0b != b0 || tr0b != tr0 {
			c.Internalf("replaying the identity schedule gave a different output or visit trace (uncontrolled nondeterminism)")
			return
		}
		type visit struct {
			tag         string
			no, site, n int
		}
		var visits []visit
		for _, l := range strings.Split(strings.TrimSpace(tr0), "\n") {
			var v visit
			if _, err := fmt.Sscanf(l, "%s %d %d %d", &v.tag, &v.no, &v.site, &v.n); err == nil {
				visits = append(visits, v)
			}
		}
		totalVisits += len(visits)
		var scheds []struct{ id, text string }
		// d = 0: global policies
		for _, pol := range []string{"reverse", "rotate"} {
			scheds = append(scheds, struct{ id, text string }{"policy=" + pol, "wire * " + pol + "\nmain * " + pol + "\ntypeutil * " + pol + "\n"})
			scheds = append(scheds, struct{ id, text string }{"policy=" + pol + "/wire-only", "wire * " + pol + "\nmain * " + pol + "\n"})
			scheds = append(scheds, struct{ id, text string }{"policy=" + pol + "/typeutil-only", "typeutil * " + pol + "\n"})
		}
		// d = 1: one visit deviates
		permsFor := func(n int) [][]int {
			var out [][]int
			if n <= 4 && thorough || n <= 3 {
				permutations(n, func(p []int) {
					id := true
					for i, x := range p {
						if x != i {
							id = false
						}
					}
					if !id {
						out = append(out, p)
					}
				})
				return out
			}
			rev := make([]int, n)
			for i := range rev {
				rev[i] = n - 1 - i
			}
			out = append(out, rev)
			limit := n
			if !thorough {
				limit = 2
			}
			for r := 1; r < limit; r++ {
				p := make([]int, n)
				for i := range p {
					p[i] = (i + r) % n
				}
				out = append(out, p)
			}
			if thorough {
				for i := 0; i+1 < n; i++ {
					p := make([]int, n)
					for j := range p {
						p[j] = j
					}
					p[i], p[i+1] = p[i+1], p[i]
					out = append(out, p)
				}
			}
			return out
		}
		line := func(v visit, p []int) string {
			var sb strings.Builder
			fmt.Fprintf(&sb, "%s %d", v.tag, v.no)
			for _, x := range p {
				fmt.Fprintf(&sb, " %d", x)
			}
			return sb.String() + "\n"
		}
		multi := 0
		for _, v := range visits {
			if v.n < 2 {
				continue
			}
			multi++
			for _, p := range permsFor(v.n) {
				scheds = append(scheds, struct{ id, text string }{fmt.Sprintf("visit=%s:%d(site %d,n=%d)/perm=%v", v.tag, v.no, v.site, v.n, p), line(v, p)})
			}
		}
		// d = 2 (thorough): pairs of visits, both reversed
		if thorough {
			var mv []visit
			for _, v := range visits {
				if v.n >= 2 {
					mv = append(mv, v)
				}
			}
			rev := func(n int) []int {
				p := make([]int, n)
				for i := range p {
					p[i] = n - 1 - i
				}
				return p
			}
			for i := 0; i < len(mv); i++ {
				for j := i + 1; j < len(mv); j++ {
					scheds = append(scheds, struct{ id, text string }{fmt.Sprintf("pair=%s:%d+%s:%d", mv[i].tag, mv[i].no, mv[j].tag, mv[j].no), line(mv[i], rev(mv[i].n)) + line(mv[j], rev(mv[j].n))})
				}
			}
		}
		c.Coverage[fmt.Sprintf("program%d_visits", pv)] = len(visits)
		c.Coverage[fmt.Sprintf("program%d_visits_with_2plus_entries", pv)] = multi
		var wg sync.WaitGroup
		ch := make(chan int)
		for w := 0; w < 14; w++ {
			wg.Add(1)
			go func() {
				defer wg.Done()
				for i := range ch {
					s := scheds[i]
					out, exit, _, se := runSched(s.text)
					if exit == 97 {
						// the run diverged from the recorded visit list before reaching the deviation: itself order dependence
						viol(fmt.Sprintf("C16/maporder/prog=%d/%s", pv, s.id), "schedule-divergence", "the number of entries met at a visit changed under a different iteration order:\n"+clip(se, 600), map[string]string{"schedule.txt": s.text})
						continue
					}
					if exit != e0 || out != b0 {
						viol(fmt.Sprintf("C16/maporder/prog=%d/%s", pv, s.id), "order-dependent-output", fmt.Sprintf("wire_gen.go (or the exit status %d vs %d) depends on a map iteration order; schedule:\n%s\n--- diff (first differing lines) ---\n%s", exit, e0, s.text, firstDiff(b0, out)), map[string]string{"schedule.txt": s.text, "baseline_wire_gen.go.txt": b0, "deviating_wire_gen.go.txt": out})
					}
				}
			}()
		}
		for i := range scheds {
			if c.Expired() {
				break
			}
			ch <- i
		}
		close(ch)
		wg.Wait()
		schedules += len(scheds)
		if pv+1 >= nprog {
			break
		}
	}
	if confMismatch != "" && len(c.Violations) == 0 {
		c.Internalf("%s, and no schedule changes the output: the instrumentation is not faithful", confMismatch)
		return
	}
	// ---------- Part 2: configurations ----------
	confRuns, confs := c16Configurations(c, thorough, viol)
	confRuns += c16Together(c, viol)
	c.Coverage["schedules_explored"] = schedules
	c.Coverage["instrumented_runs"] = runs
	c.Coverage["configuration_runs"] = confRuns
	c.Coverage["configurations"] = confs
	c.Coverage["states"] = totalVisits
	c.Coverage["transitions"] = runs + confRuns
	c.Coverage["traces_validated_against_impl"] = schedules
	c.Coverage["evaluations"] = runs + confRuns
	c.Coverage["distinct_nontrivial"] = schedules + confs
	c.Coverage["rule"] = "Part 1 (schedules = iteration orders): wire is rebuilt from the working tree with every `range` over a Go map (sites listed) and typeutil.Map.Iterate rewritten to follow a schedule file; on import-/value-/injector-rich programs the identity schedule gives the baseline (conformance: the plain binary gives the same bytes; replaying twice gives identical bytes and visit trace); then d=0 global policies (reverse / rotate everywhere, per package), d=1 every visit with >=2 entries under all permutations (n<=3, thorough n<=4) or reversal+rotations(+adjacent transpositions in thorough), d=2 (thorough) all pairs of visits reversed. Every run must give byte-identical wire_gen.go. Part 2 (configurations): layout {module, module+vendor, GOPATH, GOPATH+vendor} x checkout location {two directories, one with a space} x invocation {cwd=package '.', cwd=root './app', import-path pattern, './...'} x {alone, with other packages} x repeat 2, the same under an import path with vendor-like fragments and under a single-element import path; three small packages (sharing struct, array and pointer result types of fallible injectors that each package spells differently) generated alone and together in every order of the patterns, with and without a short header file: all outputs byte-identical, no scratch path / user / date in the bytes."
	c.Samples = append(c.Samples, map[string]interface{}{"schedule_example": "wire 12 2 0 1   (visit 12 of package wire iterates its 3 canonically sorted entries in the order 2,0,1)", "sites": siteList})
	c.Assumptions = append(c.Assumptions, "goroutine scheduling inside go/packages and the go list subprocess are not intercepted; their effect is observed only through the repeated configuration runs", "canonical order of typeutil.Map entries is by types.TypeString (ties keep bucket order)")
	if schedules < 20 && c.Only == "" {
		c.Internalf("vacuous: %d schedules", schedules)
	}
}

// splitDep separates the third-party dependency (files under DEP/) from the module's own files.
func splitDep(files map[string]string) (own, dep map[string]string) {
	own, dep = map[string]string{}, map[string]string{}
	for p, c := range files {
		if strings.HasPrefix(p, "DEP/") {
			dep[strings.TrimPrefix(p, "DEP/")] = c
		} else {
			own[p] = c
		}
	}
	return
}

// writeModuleWithDep lays the program out in module mode: the dependency is a second module reached by a replace directive.
func writeModuleWithDep(dir string, files map[string]string) {
	writeModuleWithDepPath(dir, files, "example.com/m")
}

func writeModuleWithDepPath(dir string, files map[string]string, modPath string) {
	own, dep := splitDep(files)
	mf := h.ModuleFiles(modPath)
	mf["go.mod"] = strings.Replace(mf["go.mod"], "require github.com/google/wire v0.0.0\n", "require (\n\tgithub.com/google/wire v0.0.0\n\texample.org/dep v0.0.0\n)\n\nreplace example.org/dep => ./depmod\n", 1)
	h.WriteFiles(dir, mf)
	h.WriteFiles(dir, own)
	h.WriteFiles(filepath.Join(dir, "depmod"), dep)
	h.WriteFiles(filepath.Join(dir, "depmod"), map[string]string{"go.mod": "module example.org/dep\n\ngo 1.23\n"})
}

func firstDiff(a, b string) string {
	al, bl := strings.Split(a, "\n"), strings.Split(b, "\n")
	for i := 0; i < len(al) || i < len(bl); i++ {
		x, y := "", ""
		if i < len(al) {
			x = al[i]
		}
		if i < len(bl) {
			y = bl[i]
		}
		if x != y {
			return fmt.Sprintf("line %d:\n- %s\n+ %s", i+1, x, y)
		}
	}
	return "(identical)"
}

var reRunSpecific = regexp.MustCompile(`20\d\d-\d\d-\d\d|\d\d:\d\d:\d\d|/tmp/|wverif|/root|/home/`)

// c16Configurations runs the plain binary across layouts, locations and invocation forms.
func c16Configurations(c *h.Check, thorough bool, viol func(id, sym, detail string, files map[string]string)) (int, int) {
	files := richProgram(0)
	repo := h.RepoDir()
	wireRoot, _ := os.ReadFile(filepath.Join(repo, "wire.go"))
	type outcome struct {
		id   string
		out  string
		exit int
		err  string
	}
	var results []outcome
	var mu sync.Mutex
	runs := 0
	locs := []string{"short", "a much longer/dir name with spaces/x"}
	layouts := []string{"module", "module+vendor", "gopath", "gopath+vendor"}
	type job struct{ layout, loc string }
	var jobs []job
	for _, l := range layouts {
		for _, loc := range locs {
			jobs = append(jobs, job{l, loc})
		}
	}
	// the whole program again under an import path that itself contains "vendor" and "-vendor/" fragments
	// (own reference: module mode under that path)
	for _, l := range layouts {
		jobs = append(jobs, job{l, "vendorish"})
	}
	// and under a single-element import path (a project rooted directly under $GOPATH/src)
	for _, l := range layouts {
		jobs = append(jobs, job{l, "single-elem"})
	}
	var wg sync.WaitGroup
	ch := make(chan job)
	for w := 0; w < 8; w++ {
		wg.Add(1)
		go func() {
			defer wg.Done()
			for j := range ch {
				base := filepath.Join(c.S.Dir("cfg"), j.loc)
				var root string
				var env []string
				files := files
				modPath := "example.com/m"
				if j.loc == "vendorish" || j.loc == "single-elem" {
					modPath = "example.com/acme-vendor/xvendor/m"
					if j.loc == "single-elem" {
						modPath = "shop"
					}
					files = map[string]string{}
					for p, cnt := range richProgram(0) {
						files[p] = strings.ReplaceAll(cnt, "example.com/m", modPath)
					}
				}
				switch j.layout {
				case "module", "module+vendor":
					root = base
					writeModuleWithDepPath(root, files, modPath)
					env = h.BaseEnv("GOCACHE=" + c.S.GoCache)
					if j.layout == "module+vendor" {
						r := h.Run(root, env, 120e9, "go", "mod", "vendor")
						if r.Exit != 0 {
							c.Internalf("go mod vendor failed: %s", r.Stderr)
							continue
						}
						env = h.BaseEnv("GOCACHE="+c.S.GoCache, "GOFLAGS=-mod=vendor")
					}
				default:
					gp := base
					root = filepath.Join(gp, "src", filepath.FromSlash(modPath))
					own, dep := splitDep(files)
					h.WriteFiles(root, own)
					wdir := filepath.Join(gp, "src", "github.com", "google", "wire")
					ddir := filepath.Join(gp, "src", "example.org", "dep")
					if j.layout == "gopath+vendor" {
						wdir = filepath.Join(root, "vendor", "github.com", "google", "wire")
						ddir = filepath.Join(root, "vendor", "example.org", "dep")
					}
					h.WriteFiles(ddir, dep)
					h.WriteFiles(wdir, map[string]string{"wire.go": string(wireRoot)})
					env = h.BaseEnv("GOCACHE="+c.S.GoCache, "GO111MODULE=off", "GOFLAGS=", "GOPATH="+gp)
				}
				type inv struct {
					name string
					cwd  string
					args []string
				}
				invs := []inv{
					{"cwd=pkg,.", filepath.Join(root, "app"), []string{"gen", "."}},
					{"cwd=pkg,default", filepath.Join(root, "app"), []string{"gen"}},
					{"cwd=root,./app", root, []string{"gen", "./app"}},
					{"cwd=root,importpath", root, []string{"gen", modPath + "/app"}},
					{"cwd=root,./...", root, []string{"gen", "./..."}},
					{"cwd=root,app+others", root, []string{"gen", "./other1", "./app", "./other2"}},
					{"cwd=root,aaa-first", root, []string{"gen", "./aaa", "./app"}},
				}
				for _, in := range invs {
					for rep := 0; rep < 2; rep++ {
						os.Remove(filepath.Join(root, "app", "wire_gen.go"))
						r := h.RunLimited(in.cwd, env, 120e9, h.WireMemKB, append([]string{c.S.Wire}, in.args...)...)
						out, _ := os.ReadFile(filepath.Join(root, "app", "wire_gen.go"))
						mu.Lock()
						runs++
						results = append(results, outcome{fmt.Sprintf("C16/config/layout=%s/loc=%d/inv=%s/rep=%d", j.layout, len(j.loc), in.name, rep), string(out), r.Exit, r.Stderr})
						mu.Unlock()
					}
				}
				os.RemoveAll(base)
			}
		}()
	}
	for _, j := range jobs {
		ch <- j
	}
	close(ch)
	wg.Wait()
	sort.Slice(results, func(i, j int) bool { return results[i].id < results[j].id })
	refs := map[string]string{}
	locClass := func(id string) string {
		switch {
		case strings.Contains(id, "loc=9/"): // len("vendorish") == 9
			return "vendorish"
		case strings.Contains(id, "loc=11/"): // len("single-elem") == 11
			return "single-elem"
		}
		return ""
	}
	for _, r := range results {
		if strings.Contains(r.id, "layout=module/") && strings.Contains(r.id, "inv=cwd=pkg,.") {
			if v := locClass(r.id); refs[v] == "" {
				refs[v] = r.out
			}
		}
	}
	if refs[""] == "" || refs["vendorish"] == "" || refs["single-elem"] == "" {
		c.Internalf("no reference output for the configuration matrix")
		return runs, 0
	}
	for _, r := range results {
		ref := refs[locClass(r.id)]
		if r.exit != 0 || r.out == "" {
			viol(r.id, "config-generation-failed", fmt.Sprintf("generation failed (exit %d) in this configuration although it succeeds in module mode:\n%s", r.exit, clip(r.err, 800)), nil)
			continue
		}
		if r.out != ref {
			viol(r.id, "config-dependent-output", "wire_gen.go differs from the module-mode output:\n"+firstDiff(ref, r.out), map[string]string{"reference.go.txt": ref, "this.go.txt": r.out})
		}
		if m := reRunSpecific.FindString(r.out); m != "" {
			viol(r.id, "run-specific-data", "output contains run-specific data: "+m, nil)
		}
	}
	return runs, len(results)
}

// c16Together: several small packages generated one at a time and together in one invocation (every order of the
// patterns), with and without a short header file: each package's output must not depend on its company.
func c16Together(c *h.Check, viol func(id, sym, detail string, files map[string]string)) int {
	files := map[string]string{"hdr.txt": "// Short licence header.\n\n"}
	names := []string{"alpha", "beta", "gamma"}
	for i, n := range names {
		files[n+"/defs.go"] = fmt.Sprintf("package %s\n\ntype T%d struct{ N int }\n\nfunc New%d() T%d { return T%d{N: %d} }\n", n, i, i, i, i, i)
		files[n+"/wire.go"] = fmt.Sprintf("//go:build wireinject\n// +build wireinject\n\npackage %s\n\nimport \"github.com/google/wire\"\n\nfunc Init%d() T%d {\n\tpanic(wire.Build(New%d))\n}\n", n, i, i, i)
	}
	// types shared between the packages and spelled differently in each (Shared / alpha.Shared / al.Shared), as results of
	// fallible injectors (zero-value expressions), so that nothing computed for one package may be reused for the next
	files["alpha/defs.go"] += "\ntype Shared struct{ N int }\n\ntype Arr [2]int\n\nfunc NewShared() (Shared, error) { return Shared{N: 1}, nil }\n\nfunc NewArr() (Arr, error) { return Arr{1, 2}, nil }\n\nfunc NewPtr(s Shared) (*Shared, func(), error) { return &s, func() {}, nil }\n"
	for _, n := range names {
		q, imp := "", ""
		switch n {
		case "beta":
			q, imp = "alpha.", "import \"example.com/m/alpha\"\n\n"
		case "gamma":
			q, imp = "al.", "import al \"example.com/m/alpha\"\n\n"
		}
		w := files[n+"/wire.go"]
		w = strings.Replace(w, "import \"github.com/google/wire\"\n\n", "import \"github.com/google/wire\"\n\n"+imp, 1)
		w += fmt.Sprintf("\nfunc InitShared() (%sShared, error) {\n\tpanic(wire.Build(%sNewShared))\n}\n\nfunc InitArr() (%sArr, error) {\n\tpanic(wire.Build(%sNewArr))\n}\n\nfunc InitPtr() (*%sShared, func(), error) {\n\tpanic(wire.Build(%sNewShared, %sNewPtr))\n}\n", q, q, q, q, q, q, q)
		files[n+"/wire.go"] = w
	}
	runs := 0
	for _, hdr := range []bool{false, true} {
		gen := func(patterns ...string) (map[string]string, h.CmdResult) {
			d := c.S.Dir("together")
			defer os.RemoveAll(d)
			h.WriteFiles(d, h.ModuleFiles("example.com/m"))
			h.WriteFiles(d, files)
			argv := []string{c.S.Wire, "gen"}
			if hdr {
				argv = append(argv, "-header_file", "hdr.txt")
			}
			r := h.RunLimited(d, h.BaseEnv("GOCACHE="+c.S.GoCache), 120e9, h.WireMemKB, append(argv, patterns...)...)
			runs++
			out := map[string]string{}
			for _, n := range names {
				b, _ := os.ReadFile(filepath.Join(d, n, "wire_gen.go"))
				out[n] = string(b)
			}
			return out, r
		}
		alone := map[string]string{}
		for _, n := range names {
			o, r := gen("./" + n)
			if r.Exit != 0 || o[n] == "" {
				c.Internalf("C16 together: generating %s alone failed: %s", n, r.Stderr)
				return runs
			}
			alone[n] = o[n]
		}
		var orders [][]string
		permutations(3, func(p []int) { orders = append(orders, []string{"./" + names[p[0]], "./" + names[p[1]], "./" + names[p[2]]}) })
		orders = append(orders, []string{"./..."}, []string{"./alpha", "./beta"}, []string{"./gamma", "./alpha"})
		for _, pats := range orders {
			o, r := gen(pats...)
			id := fmt.Sprintf("C16/together/header=%v/patterns=%s", hdr, strings.Join(pats, ","))
			if r.Exit != 0 {
				viol(id, "config-generation-failed", fmt.Sprintf("generation of several packages failed (exit %d) although each succeeds alone:\n%s", r.Exit, clip(r.Stderr, 800)), files)
				continue
			}
			for _, n := range names {
				named := len(pats) == 1 && pats[0] == "./..."
				for _, p := range pats {
					if p == "./"+n {
						named = true
					}
				}
				if named && o[n] != alone[n] {
					viol(id, "config-dependent-output", fmt.Sprintf("%s/wire_gen.go differs from what generating the package alone gives:\n%s", n, firstDiff(alone[n], o[n])), files)
				}
			}
		}
	}
	return runs
}
