package props

import (
	"fmt"

	"verif/internal/explore"
	"verif/internal/h"
)

func init() { register("C02", "model_checking", checkC02) }

// wiringSpecs: every DAG on n nodes (node i depends on a subset of lower-numbered nodes,
// node n-1 is the result) with function providers; then node source kinds, type shapes,
// package placement, set splitting and variadic parameters as deviations bounded by devBound.
func wiringSpecs(n int, devBound int, prefix string) ([]specCase, explore.Stats) {
	var out []specCase
	var total explore.Stats
	for mask := uint64(0); mask < 1<<uint(dagEdgeBits(n)); mask++ {
		adj := dagAdj(n, mask)
		st := explore.Run(devBound, func(x *explore.Ctx) {
			for i := 0; i < n; i++ {
				k := x.Choose(fmt.Sprintf("kind%d", i), 8)
				if (k == NValue || k == NParam) && len(adj[i]) > 0 {
					x.Skip()
					return
				}
				if k == NFunc || k == NValue || k == NParam {
					x.Choose(fmt.Sprintf("tkind%d", i), 5)
				}
			}
			lib := x.Choose("lib", n+1) // nodes 0..lib-1 live in the lib package
			if lib > 0 {
				x.Choose("split", 2)
			}
			x.Choose("variadic", 2)
			x.Choose("errs", 2)
			x.Choose("depth", 3)    // the named set wrapped in 0..2 further named sets
			if reachableDag(n, adj) {
				x.Choose("place", 3) // 0 one named set, 1 one named set per node, 2 per node and declared pairwise in one var spec
			}
			if x.Choose("second", 3) > 0 { // a second injector over the same set objects, after / before the first
				x.Choose("root2", n)
			}
		}, func(x *explore.Ctx) {
			ch := x.Map()
			g := &GraphSpec{N: n, Adj: adj, Nodes: make([]NodeSpec, n), Root: n - 1, InSet: true}
			for i := 0; i < n; i++ {
				g.Nodes[i].Kind = ch[fmt.Sprintf("kind%d", i)]
				g.Nodes[i].TKind = ch[fmt.Sprintf("tkind%d", i)]
				g.Nodes[i].Lib = i < ch["lib"]
				g.Nodes[i].Variadic = ch["variadic"] == 1
				if ch["errs"] == 1 {
					g.Nodes[i].Err = i%2 == 0
					g.Nodes[i].Cleanup = i%2 == 1
				}
			}
			// a struct-kind node in lib with fields from the root package would be an import cycle: impossible by construction (deps are lower-numbered)
			g.Split = ch["split"] == 1
			g.Depth = ch["depth"]
			if ch["place"] > 0 {
				g.InSet, g.PerNode, g.Split = false, true, false
				g.PairSets = ch["place"] == 2
			}
			g.Second = ch["second"]
			g.SecondRoot = n - 1 - ch["root2"]
			out = append(out, specCase{fmt.Sprintf("%sn=%d/dag=%d/%s", prefix, n, mask, x.ID()), g})
		})
		total.Executions += st.Executions
		total.Skipped += st.Skipped
	}
	total.Bound = devBound
	return out, total
}

func checkC02(c *h.Check) {
	thorough := c.Tier == "thorough"
	var specs []specCase
	bounds := map[int]int{1: 3, 2: 3, 3: 2, 4: 1}
	if thorough {
		bounds = map[int]int{1: 4, 2: 4, 3: 3, 4: 2, 5: 1}
	}
	exp := map[string]interface{}{}
	for n := 1; n <= 5; n++ {
		b, ok := bounds[n]
		if !ok {
			continue
		}
		s, st := wiringSpecs(n, b, "C02/dag/")
		specs = append(specs, s...)
		exp[fmt.Sprintf("n=%d", n)] = map[string]interface{}{"dags": 1 << uint(dagEdgeBits(n)), "deviation_bound": b, "executions": st.Executions, "skipped": st.Skipped}
	}
	cases, results := runSpecs(c, specs, map[string]bool{"wiring": true})
	stdCoverage(c, cases, results, "all DAGs on N labelled types (node i depends on a subset of lower-numbered nodes, last node is the result), function providers by default; deviations (bounded per N, see explorer): node source kind (struct pointer/value, field, pointer-to-field, binding, value, injector parameter), type shape (leaf, pointer, named int, interface, slice), lib-package placement, nested lib set, variadic parameter, error/cleanup mix, nesting depth of the set (0-2 extra levels), one named set per node (also declared pairwise in one var spec), a second injector over the same set objects declared before or after the first. Oracle: every provider argument / struct field / selected field / result carries the identity minted by the model's designated source in the same call; exactly the needed providers run, once. Distinct = distinct rendered source.")
	c.Coverage["explorer"] = exp
	sampleCase(c, cases, results)
	c.Assumptions = append(c.Assumptions, "data independence: identities stand for all injector argument values")
}
