package props

import (
	"fmt"

	"verif/internal/explore"
	"verif/internal/h"
	"verif/internal/ir"
)

func init() { register("C02", "model_checking", checkC02) }

// wiringSpecs: every DAG on n nodes (node i depends on a subset of lower-numbered nodes,
// node n-1 is the result) with function providers; then node source kinds, type shapes,
// package placement, set splitting and variadic parameters as deviations bounded by devBound.
func wiringSpecs(n int, devBound int, prefix string) ([]specCase, explore.Stats) {
	var out []specCase
	var total explore.Stats
	for mask := uint64(0); mask < 1<<uint(dagEdgeBits(n)); mask++ {
		adj := dagAdj(n, mask)
		st := explore.Run(devBound, func(x *explore.Ctx) {
			for i := 0; i < n; i++ {
				k := x.Choose(fmt.Sprintf("kind%d", i), 8)
				if (k == NValue || k == NParam) && len(adj[i]) > 0 {
					x.Skip()
					return
				}
				if k == NFunc || k == NValue || k == NParam {
					x.Choose(fmt.Sprintf("tkind%d", i), 5)
				}
			}
			lib := x.Choose("lib", n+1) // nodes 0..lib-1 live in the lib package
			if lib > 0 {
				x.Choose("split", 2)
			}
			x.Choose("variadic", 2)
			x.Choose("errs", 2)
			x.Choose("paramnames", 3) // injector parameters named, blank (_) or unnamed
			x.Choose("revdecls", 2)   // declarations in reverse order
			x.Choose("depth", 3)    // the named set wrapped in 0..2 further named sets
			if reachableDag(n, adj) {
				x.Choose("place", 3) // 0 one named set, 1 one named set per node, 2 per node and declared pairwise in one var spec
			}
			if x.Choose("second", 3) > 0 { // a second injector over the same set objects, after / before the first
				x.Choose("root2", n)
			}
		}, func(x *explore.Ctx) {
			ch := x.Map()
			g := &GraphSpec{N: n, Adj: adj, Nodes: make([]NodeSpec, n), Root: n - 1, InSet: true}
			for i := 0; i < n; i++ {
				g.Nodes[i].Kind = ch[fmt.Sprintf("kind%d", i)]
				g.Nodes[i].TKind = ch[fmt.Sprintf("tkind%d", i)]
				g.Nodes[i].Lib = i < ch["lib"]
				g.Nodes[i].Variadic = ch["variadic"] == 1
				if ch["errs"] == 1 {
					g.Nodes[i].Err = i%2 == 0
					g.Nodes[i].Cleanup = i%2 == 1
				}
			}
			// a struct-kind node in lib with fields from the root package would be an import cycle: impossible by construction (deps are lower-numbered)
			g.Split = ch["split"] == 1
			g.Depth = ch["depth"]
			g.ParamNames = ch["paramnames"]
			g.ReverseDecls = ch["revdecls"] == 1
			if ch["place"] > 0 {
				g.InSet, g.PerNode, g.Split = false, true, false
				g.PairSets = ch["place"] == 2
			}
			g.Second = ch["second"]
			g.SecondRoot = n - 1 - ch["root2"]
			out = append(out, specCase{fmt.Sprintf("%sn=%d/dag=%d/%s", prefix, n, mask, x.ID()), g})
		})
		total.Executions += st.Executions
		total.Skipped += st.Skipped
	}
	total.Bound = devBound
	return out, total
}

func checkC02(c *h.Check) {
	thorough := c.Tier == "thorough"
	var specs []specCase
	bounds := map[int]int{1: 3, 2: 3, 3: 2, 4: 1}
	if thorough {
		bounds = map[int]int{1: 4, 2: 4, 3: 3, 4: 2, 5: 1}
	}
	exp := map[string]interface{}{}
	for n := 1; n <= 5; n++ {
		b, ok := bounds[n]
		if !ok {
			continue
		}
		s, st := wiringSpecs(n, b, "C02/dag/")
		specs = append(specs, s...)
		exp[fmt.Sprintf("n=%d", n)] = map[string]interface{}{"dags": 1 << uint(dagEdgeBits(n)), "deviation_bound": b, "executions": st.Executions, "skipped": st.Skipped}
	}
	specs = append(specs, noCallSpecs()...)
	specs = append(specs, rootNamedLibSpecs()...)
	specs = append(specs, manyTwinsSpecs()...)
	specs = append(specs, spellingSpecs()...)
	specs = append(specs, taggedStarSpecs()...)
	specs = append(specs, bothFormsSpecs("C02")...)
	cases, results := runSpecs(c, specs, map[string]bool{"wiring": true})
	stdCoverage(c, cases, results, "all DAGs on N labelled types (node i depends on a subset of lower-numbered nodes, last node is the result), function providers by default; deviations (bounded per N, see explorer): node source kind (struct pointer/value, field, pointer-to-field, binding, value, injector parameter), type shape (leaf, pointer, named int, interface, slice), lib-package placement, nested lib set, variadic parameter, error/cleanup mix, nesting depth of the set (0-2 extra levels), one named set per node (also declared pairwise in one var spec), a second injector over the same set objects declared before or after the first; the value and the pointer form of one struct provider needed together, directly and through an interface bound to either form, in every visiting order. Oracle: every provider argument / struct field / selected field / result carries the identity minted by the model's designated source in the same call; exactly the needed providers run, once. Distinct = distinct rendered source.")
	c.Coverage["explorer"] = exp
	sampleCase(c, cases, results)
	c.Assumptions = append(c.Assumptions, "data independence: identities stand for all injector argument values")
	if acc := c.Coverage["programs_accepted"].(int); acc < 1000 && c.Only == "" && c.NotRun == 0 {
		c.Internalf("vacuous: only %d programs accepted and executed", acc)
	}
}

// noCallSpecs: injectors whose result needs no provider call at all: an argument returned directly, an
// interface bound to one of several arguments (the others implement it too), a value, a field of an argument.
func noCallSpecs() []specCase {
	var out []specCase
	for which := 0; which < 3; which++ {
		for nparams := 1; nparams <= 3; nparams++ {
			if which >= nparams {
				continue
			}
			for names := 0; names < 3; names++ {
				which, nparams, names := which, nparams, names
				g := &GraphSpec{}
				g.custom = func(b *ir.Builder) *ir.Program {
					p := b.Root
					iface := b.Iface(p, "Store")
					var params []ir.Param
					var concs []*ir.Type
					for i := 0; i < nparams; i++ {
						cc := b.Leaf(p, fmt.Sprintf("Impl%d", i))
						cc.PtrRecv = true
						cc.Impls = []*ir.Type{iface}
						concs = append(concs, ir.Ptr(cc))
						pn := fmt.Sprintf("arg%d", i)
						if names == 1 {
							pn = "_"
						} else if names == 2 {
							pn = "-"
						}
						params = append(params, ir.Param{Name: pn, T: ir.Ptr(cc)})
					}
					inj := &ir.Injector{Name: "Init", Params: params, Out: iface, Items: []*ir.Item{ir.BindItem(iface, concs[which])}}
					inj2 := &ir.Injector{Name: "Init2", Params: params, Out: concs[which]}
					return &ir.Program{Root: p, Injectors: []*ir.Injector{inj, inj2}}
				}
				out = append(out, specCase{fmt.Sprintf("C02/nocall/bound-arg=%d-of-%d/names=%d", which, nparams, names), g})
			}
		}
	}
	return out
}

// rootNamedLibSpecs: a provider package whose package NAME equals the injector package's name and which
// declares the same identifiers as the injector's package: the generated call must reach the library's function.
func rootNamedLibSpecs() []specCase {
	var out []specCase
	for viaSet := 0; viaSet < 2; viaSet++ {
		for localKind := 0; localKind < 2; localKind++ {
			viaSet, localKind := viaSet, localKind
			g := &GraphSpec{}
			g.custom = func(b *ir.Builder) *ir.Program {
				p := b.Root
				lp := &ir.Pkg{Name: "p", Rel: "internal/p"}
				conn := b.Leaf(lp, "Conn")
				libNew := &ir.Func{Pkg: lp, Name: "NewConn", Out: conn}
				r := b.Leaf(p, "R")
				// the injector's own package has a function of the same name (and, for localKind 1, a same-named type)
				localT := b.Leaf(p, "Local")
				if localKind == 1 {
					localT = b.Leaf(p, "Conn")
				}
				local := &ir.Func{Pkg: p, Name: "NewConn", Out: localT}
				var item *ir.Item = ir.FuncItem(libNew)
				if viaSet == 1 {
					item = ir.SetRef(&ir.Set{Pkg: lp, Name: "Set", Items: []*ir.Item{ir.FuncItem(libNew)}})
				}
				inj := &ir.Injector{Name: "Init", Out: r, Items: []*ir.Item{item, ir.FuncItem(&ir.Func{Pkg: p, Name: "PR", Params: []*ir.Type{conn}, Out: r})}}
				return &ir.Program{Root: p, Injectors: []*ir.Injector{inj}, ExtraFuncs: []*ir.Func{local}}
			}
			out = append(out, specCase{fmt.Sprintf("C02/rootnamedlib/set=%d/local=%d", viaSet, localKind), g})
		}
	}
	return out
}

// manyTwinsSpecs: k packages that all have the same package name and declare the same identifiers (type T,
// func New, var Set); the result needs all of them. Exercises name allocation beyond the first few suffixes
// (cfg..cfg12, t..t12) and every table keyed by a name instead of an import path.
func manyTwinsSpecs() []specCase {
	var out []specCase
	for _, k := range []int{3, 11, 12} {
		for viaSets := 0; viaSets < 2; viaSets++ {
			for chain := 0; chain < 2; chain++ {
				k, viaSets, chain := k, viaSets, chain
				g := &GraphSpec{}
				g.custom = func(b *ir.Builder) *ir.Program {
					p := b.Root
					var ts []*ir.Type
					var items []*ir.Item
					for i := 0; i < k; i++ {
						pk := &ir.Pkg{Name: "cfg", Rel: fmt.Sprintf("m%02d/cfg", i)}
						t := b.Leaf(pk, "T")
						var deps []*ir.Type
						if chain == 1 && i > 0 {
							deps = []*ir.Type{ts[i-1]}
						}
						f := &ir.Func{Pkg: pk, Name: "New", Params: deps, Out: t, Cleanup: i%2 == 0, Err: i%3 == 0}
						ts = append(ts, t)
						if viaSets == 1 {
							items = append(items, ir.SetRef(&ir.Set{Pkg: pk, Name: "Set", Items: []*ir.Item{ir.FuncItem(f)}}))
						} else {
							items = append(items, ir.FuncItem(f))
						}
					}
					r := b.Leaf(p, "R")
					items = append(items, ir.FuncItem(&ir.Func{Pkg: p, Name: "PR", Params: ts, Out: r}))
					inj := &ir.Injector{Name: "Init", Out: r, Err: true, Cleanup: true, Items: items}
					return &ir.Program{Root: p, Injectors: []*ir.Injector{inj}, Hist: 0}
				}
				out = append(out, specCase{fmt.Sprintf("C02/manytwins/k=%d/sets=%d/chain=%d", k, viaSets, chain), g})
			}
		}
	}
	return out
}

// spellingSpecs: one unnamed type written in two ways (parameter names in a function type, a parenthesised
// element type, an alias inside a composite): identical to Go, so there is one source and one instance.
func spellingSpecs() []specCase {
	var out []specCase
	pairs := []struct{ name, a, b, key, val string }{
		{"func-param-names", "func(delta int) int", "func(int) int", "func(int) int", "func(int) int { return 0 }"},
		{"func-result-names", "func() (n int, err error)", "func() (int, error)", "func() (int, error)", "func() (int, error) { return 0, nil }"},
		{"paren-elem", "[](int)", "[]int", "[]int", "[]int{1}"},
		{"chan-paren", "chan (int)", "chan int", "chan int", "make(chan int)"},
		{"struct-spacing", "struct{ A, B int }", "struct {\n\tA int\n\tB int\n}", "struct{A int; B int}", "struct{ A, B int }{}"},
		{"interface-any", "interface{}", "any", "interface{}", "interface{}(1)"},
		{"map-of-func", "map[string]func(x int)", "map[string]func(int)", "map[string]func(int)", "map[string]func(int){}"},
	}
	for _, pr := range pairs {
		for order := 0; order < 2; order++ {
			pr, order := pr, order
			g := &GraphSpec{}
			g.custom = func(b *ir.Builder) *ir.Program {
				p := b.Root
				ta := &ir.Type{Kind: ir.KRaw, Name: pr.a, RawKey: pr.key, RawValue: pr.val}
				tb := &ir.Type{Kind: ir.KRaw, Name: pr.b, RawKey: pr.key, RawValue: pr.val}
				if order == 1 {
					ta, tb = tb, ta
				}
				o, bl, r := b.Leaf(p, "Orders"), b.Leaf(p, "Billing"), b.Leaf(p, "R")
				inj := &ir.Injector{Name: "Init", Out: r, Items: []*ir.Item{
					ir.FuncItem(&ir.Func{Pkg: p, Name: "NewSeq", Out: ta}),
					ir.FuncItem(&ir.Func{Pkg: p, Name: "NewOrders", Params: []*ir.Type{ta}, Out: o}),
					ir.FuncItem(&ir.Func{Pkg: p, Name: "NewBilling", Params: []*ir.Type{tb}, Out: bl}),
					ir.FuncItem(&ir.Func{Pkg: p, Name: "PR", Params: []*ir.Type{o, bl}, Out: r}),
				}}
				return &ir.Program{Root: p, Injectors: []*ir.Injector{inj}}
			}
			out = append(out, specCase{fmt.Sprintf("C02/spelling/%s/order=%d", pr.name, order), g})
		}
	}
	return out
}

// taggedStarSpecs: wire.Struct(new(S), "*") over fields with every tag form; the prevented ones must keep their
// zero value although a source of their type is in the build set and is used elsewhere.
func taggedStarSpecs() []specCase {
	var out []specCase
	tags := []string{`wire:"-"`, `json:"-" wire:"-"`, `wire:"-" json:"x"`, `json:"-"`, `wire:"x"`, ``}
	for ti := range tags {
		for ptr := 0; ptr < 2; ptr++ {
			ti, ptr := ti, ptr
			g := &GraphSpec{}
			g.custom = func(b *ir.Builder) *ir.Program {
				p := b.Root
				u, tr := b.Leaf(p, "User"), b.Leaf(p, "Tracer")
				sess := b.Agg(p, "Session", &ir.Field{Name: "User", T: ir.Ptr(u)}, &ir.Field{Name: "Trace", T: ir.Ptr(tr), Tag: tags[ti]})
				var st *ir.Type = sess
				if ptr == 1 {
					st = ir.Ptr(sess)
				}
				hd := b.Leaf(p, "Handler")
				inj := &ir.Injector{Name: "Init", Out: hd, Items: []*ir.Item{
					ir.FuncItem(&ir.Func{Pkg: p, Name: "NewUser", Out: ir.Ptr(u)}),
					ir.FuncItem(&ir.Func{Pkg: p, Name: "NewTracer", Out: ir.Ptr(tr)}),
					ir.StructItem(sess, "*"),
					ir.FuncItem(&ir.Func{Pkg: p, Name: "NewHandler", Params: []*ir.Type{st, ir.Ptr(tr)}, Out: hd}),
				}}
				return &ir.Program{Root: p, Injectors: []*ir.Injector{inj}}
			}
			out = append(out, specCase{fmt.Sprintf("C02/tagged-star/tag=%d/ptr=%d", ti, ptr), g})
		}
	}
	return out
}
