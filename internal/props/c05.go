package props

import (
	"fmt"

	"verif/internal/explore"
	"verif/internal/h"
	"verif/internal/ir"
)

func init() { register("C05", "model_checking", checkC05) }

// source kinds that can provide a contested type
const (
	sFunc = iota
	sStructV
	sStructP
	sValue
	sIfaceValue
	sBind
	sField
	sPtrField
	sParam
	sSameSet
	nSrcKinds
)

var srcNames = []string{"func", "struct", "structptr", "value", "ifacevalue", "bind", "field", "ptrfield", "param", "sameset"}

// type kinds of the contested type when the pair leaves it free
const (
	tkNamed = iota
	tkPointer
	tkAlias
	tkSlice
	tkIface
	nTypeKinds
)

// contested picks the contested type for a pair, or nil if the pair cannot provide a common type.
// It returns the type as written by source A and as written by source B (they differ for aliases).
func contested(b *ir.Builder, p *ir.Pkg, k1, k2, tk int) (ta, tb *ir.Type, ok bool) {
	has := func(k int) bool { return k1 == k || k2 == k }
	canIface := func(k int) bool {
		return k == sFunc || k == sField || k == sParam || k == sBind || k == sIfaceValue || k == sSameSet
	}
	canAgg := func(k int) bool {
		return k == sFunc || k == sValue || k == sField || k == sParam || k == sStructV || k == sStructP || k == sSameSet || k == sPtrField
	}
	switch {
	case has(sBind) || has(sIfaceValue):
		if !canIface(k1) || !canIface(k2) || tk != tkIface {
			return nil, nil, false
		}
		t := b.Iface(p, "T")
		return t, t, true
	case has(sStructV) || has(sStructP):
		if !canAgg(k1) || !canAgg(k2) || (has(sStructV) && has(sPtrField)) {
			return nil, nil, false
		}
		if tk != tkNamed && tk != tkPointer {
			return nil, nil, false
		}
		agg := b.Agg(p, "T")
		// the struct provider provides both forms; the contested form follows the other source
		ptr := tk == tkPointer || has(sPtrField)
		if has(sStructV) && !has(sStructP) && ptr && !has(sPtrField) {
			// struct(value form) vs X: contested on the pointer form too, both are provided
		}
		if ptr {
			return ir.Ptr(agg), ir.Ptr(agg), true
		}
		return agg, agg, true
	case has(sPtrField):
		if tk != tkPointer {
			return nil, nil, false
		}
		t := ir.Ptr(b.Leaf(p, "T"))
		return t, t, true
	}
	switch tk {
	case tkNamed:
		t := b.Leaf(p, "T")
		return t, t, true
	case tkPointer:
		t := ir.Ptr(b.Leaf(p, "T"))
		return t, t, true
	case tkAlias:
		t := b.Leaf(p, "T")
		return t, b.Alias(p, "TAlias", t), true
	case tkSlice:
		l := b.Leaf(p, "T")
		return ir.Slice(l), ir.Slice(l), true // two separately written []T
	case tkIface:
		if !canIface(k1) || !canIface(k2) {
			return nil, nil, false
		}
		t := b.Iface(p, "T")
		return t, t, true
	}
	return nil, nil, false
}

// mkSource builds the items (and possibly an injector parameter) through which a source of
// the given kind provides t. tag makes helper names unique; id is the value identity.
func mkSource(b *ir.Builder, p *ir.Pkg, kind int, t *ir.Type, tag string, id int) (items []*ir.Item, param *ir.Param) {
	switch kind {
	case sFunc:
		return []*ir.Item{ir.FuncItem(&ir.Func{Pkg: p, Name: "Pf" + tag, Out: t})}, nil
	case sStructV, sStructP:
		agg := t
		if agg.Kind == ir.KPtr {
			agg = agg.Elem
		}
		return []*ir.Item{ir.StructItem(agg, "*")}, nil
	case sValue:
		return []*ir.Item{ir.ValueItem(t, id)}, nil
	case sIfaceValue:
		dyn := b.Leaf(p, "Dyn"+tag)
		dyn.PtrRecv = true
		dyn.Impls = []*ir.Type{t}
		return []*ir.Item{ir.IfaceValueItem(t, ir.Ptr(dyn), id)}, nil
	case sBind:
		conc := b.Leaf(p, "Conc"+tag)
		conc.Impls = []*ir.Type{t}
		return []*ir.Item{ir.FuncItem(&ir.Func{Pkg: p, Name: "PConc" + tag, Out: conc}), ir.BindItem(t, conc)}, nil
	case sField:
		holder := b.Agg(p, "Holder"+tag, &ir.Field{Name: "F", T: t})
		return []*ir.Item{ir.FuncItem(&ir.Func{Pkg: p, Name: "PHolder" + tag, Out: holder}), ir.FieldsOfItem(holder, false, "F")}, nil
	case sPtrField:
		holder := b.Agg(p, "Holder"+tag, &ir.Field{Name: "F", T: t.Elem})
		return []*ir.Item{ir.FuncItem(&ir.Func{Pkg: p, Name: "PHolder" + tag, Out: ir.Ptr(holder)}), ir.FieldsOfItem(holder, true, "F")}, nil
	case sParam:
		return nil, &ir.Param{Name: "arg" + tag, T: t}
	}
	panic("mkSource")
}

const (
	plSame = iota
	plNestedVsDirect
	plSiblings
	plOtherPkg
	plUnusedNested
	plInline
	nPlacements
)

var placementNames = []string{"same-call", "nested-vs-direct", "sibling-sets", "other-package", "unused-nested", "inline-newset"}

// conflictProgram builds the program for one (pair, placement, type kind, order) choice.
func conflictProgram(k1, k2, pl, tk, order int) *ir.Program {
	b := ir.NewBuilder()
	root := b.Root
	tp := root // package declaring the contested type and source A's helpers
	if pl == plOtherPkg {
		tp = b.Lib
	}
	if k1 == sSameSet {
		// one set reached along two paths
		t := b.Leaf(tp, "T")
		if tk != tkNamed {
			return nil
		}
		x := &ir.Set{Pkg: tp, Name: "SetX", Items: []*ir.Item{ir.FuncItem(&ir.Func{Pkg: tp, Name: "PfA", Out: t})}}
		inj := &ir.Injector{Name: "Init", Out: t}
		switch pl {
		case plSame, plOtherPkg:
			inj.Items = []*ir.Item{ir.SetRef(x), ir.SetRef(x)}
			if tk == tkNamed && order == 0 && pl == plSame {
				// reached once by its own name and once through a variable that merely aliases it
				alias := &ir.Set{Pkg: root, Name: "AliasOfX", Items: []*ir.Item{ir.SetRef(x)}, AliasOf: x}
				inj.Items = []*ir.Item{ir.SetRef(x), ir.SetRef(alias)}
			}
		case plNestedVsDirect:
			inj.Items = []*ir.Item{ir.SetRef(&ir.Set{Pkg: root, Name: "SetOuter", Items: []*ir.Item{ir.SetRef(x)}}), ir.SetRef(x)}
		case plSiblings:
			inj.Items = []*ir.Item{ir.SetRef(&ir.Set{Pkg: root, Name: "SetOuter1", Items: []*ir.Item{ir.SetRef(x)}}), ir.SetRef(&ir.Set{Pkg: root, Name: "SetOuter2", Items: []*ir.Item{ir.SetRef(x)}})}
		case plInline:
			inj.Items = []*ir.Item{ir.InlineSet(&ir.Set{Pkg: root, Items: []*ir.Item{ir.SetRef(x)}}), ir.SetRef(x)}
		case plUnusedNested:
			r := b.Leaf(root, "R")
			inj.Out = r
			inj.Items = []*ir.Item{ir.FuncItem(&ir.Func{Pkg: root, Name: "PR", Out: r}), ir.SetRef(&ir.Set{Pkg: root, Name: "SetU", Items: []*ir.Item{ir.SetRef(x), ir.InlineSet(&ir.Set{Pkg: root, Items: []*ir.Item{ir.SetRef(x)}})}})}
		}
		if order == 1 {
			for i, j := 0, len(inj.Items)-1; i < j; i, j = i+1, j-1 {
				inj.Items[i], inj.Items[j] = inj.Items[j], inj.Items[i]
			}
		}
		return &ir.Program{Root: root, Injectors: []*ir.Injector{inj}}
	}
	ta, tb, ok := contested(b, tp, k1, k2, tk)
	if !ok {
		return nil
	}
	if k1 == sStructV || k1 == sStructP || k2 == sStructV || k2 == sStructP {
		// the struct item is written once per source; when both are struct providers they name the same type
	}
	ia, pa := mkSource(b, tp, k1, ta, "A", 9001)
	ib, pb := mkSource(b, root, k2, tb, "B", 9002)
	if pl == plOtherPkg && (pa != nil) {
		return nil // a parameter cannot live in another package's set
	}
	inj := &ir.Injector{Name: "Init", Out: tb}
	for _, p := range []*ir.Param{pa, pb} {
		if p != nil {
			inj.Params = append(inj.Params, *p)
		}
	}
	setOf := func(pkg *ir.Pkg, name string, items []*ir.Item) *ir.Item {
		return ir.SetRef(&ir.Set{Pkg: pkg, Name: name, Items: items})
	}
	var first, second []*ir.Item
	switch pl {
	case plSame:
		first, second = ia, ib
	case plNestedVsDirect:
		if len(ia) == 0 {
			return nil
		}
		first, second = []*ir.Item{setOf(root, "SetA", ia)}, ib
	case plSiblings:
		if len(ia) == 0 || len(ib) == 0 {
			return nil
		}
		first, second = []*ir.Item{setOf(root, "SetA", ia)}, []*ir.Item{setOf(root, "SetB", ib)}
	case plOtherPkg:
		if len(ia) == 0 {
			return nil
		}
		first, second = []*ir.Item{setOf(tp, "SetA", ia)}, ib
	case plInline:
		if len(ia) == 0 {
			return nil
		}
		first, second = []*ir.Item{ir.InlineSet(&ir.Set{Pkg: root, Items: ia})}, ib
	case plUnusedNested:
		if pa != nil || pb != nil || len(ia) == 0 || len(ib) == 0 {
			return nil
		}
		r := b.Leaf(root, "R")
		inj.Out = r
		u := ia
		if order == 1 {
			u = append(append([]*ir.Item{}, ib...), ia...)
		} else {
			u = append(append([]*ir.Item{}, ia...), ib...)
		}
		inj.Items = []*ir.Item{ir.FuncItem(&ir.Func{Pkg: root, Name: "PR", Out: r}), setOf(root, "SetU", u)}
		return &ir.Program{Root: root, Injectors: []*ir.Injector{inj}}
	}
	if order == 1 {
		inj.Items = append(append([]*ir.Item{}, second...), first...)
	} else {
		inj.Items = append(append([]*ir.Item{}, first...), second...)
	}
	return &ir.Program{Root: root, Injectors: []*ir.Injector{inj}}
}

func checkC05(c *h.Check) {
	thorough := c.Tier == "thorough"
	var cases []*h.Case
	pairs := map[string]bool{}
	st := explore.Run(-1, func(x *explore.Ctx) {
		k1 := x.Choose("a", nSrcKinds)
		k2 := k1
		if k1 != sSameSet {
			k2 = x.Choose("b", nSrcKinds-1) // the second source: any kind but sameset
		}
		pl := x.Choose("place", nPlacements)
		tk := x.Choose("type", nTypeKinds)
		x.Choose("order", 2)
		if !thorough {
			// quick: every pair in three placements and with the named/pointer/interface type kinds
			if pl == plOtherPkg || pl == plUnusedNested || pl == plInline {
				if !(k1 == sFunc || k2 == sFunc) {
					x.Skip()
					return
				}
			}
		}
		_ = tk
		_ = k2
	}, func(x *explore.Ctx) {
		ch := x.Map()
		k1, k2 := ch["a"], ch["b"]
		if k1 == sSameSet {
			k2 = sSameSet
		}
		// pv: how the injector's parameters are written (named / blank identifier / unnamed); only for programs that have one
		for pv := 0; pv < 3; pv++ {
			prog := conflictProgram(k1, k2, ch["place"], ch["type"], ch["order"])
			if prog == nil {
				return
			}
			id := fmt.Sprintf("C05/pair=%s+%s/place=%s/type=%d/order=%d", srcNames[k1], srcNames[k2], placementNames[ch["place"]], ch["type"], ch["order"])
			if pv > 0 {
				inj := prog.Injectors[0]
				if len(inj.Params) == 0 {
					return
				}
				for i := range inj.Params {
					inj.Params[i].Name = []string{"", "", "-"}[pv]
				}
				id += "/params=" + []string{"", "blank", "unnamed"}[pv]
			}
			cs := caseFromProgram(id, prog, false, nil)
			// the model must call it a conflict, otherwise the family is wrong
			m := ir.NewModel()
			w := m.Solve(prog.Injectors[0])
			conflict := false
			for _, r := range w.Reasons {
				if r.Class == "conflict" {
					conflict = true
				}
			}
			if !conflict {
				c.Internalf("family bug: %s is not a conflict in the model: %v", id, w.Reasons)
				return
			}
			// C05 oracle: only the conflict reasons count ("multiple bindings" naming the type)
			var reasons []ir.Reason
			for _, r := range w.Reasons {
				if r.Class == "conflict" {
					reasons = append(reasons, r)
				}
			}
			cs.Judge = func(r *h.Result) []h.Violation { return judgeVerdict(r, reasons) }
			if c.NoteProgram(cs.Files) {
				cases = append(cases, cs)
				a, bb := k1, k2
				if a > bb {
					a, bb = bb, a
				}
				pairs[fmt.Sprintf("%s+%s", srcNames[a], srcNames[bb])] = true
			}
		}
	})
	// one wire.FieldsOf call listing two (or three) fields of identical type; and the same set passed twice by name
	for variant := 0; variant < 4; variant++ {
		b := ir.NewBuilder()
		p := b.Root
		str := b.Leaf(p, "Str")
		port := b.Leaf(p, "Port")
		cfgT := b.Agg(p, "Config", &ir.Field{Name: "Host", T: str}, &ir.Field{Name: "Name", T: str}, &ir.Field{Name: "Port", T: port})
		names := [][]string{{"Host", "Name", "Port"}, {"Name", "Host"}, {"Port", "Host", "Name"}, {"Host", "Port", "Name"}}[variant]
		r := b.Leaf(p, "R")
		ptr := variant%2 == 1
		var parent *ir.Type = cfgT
		if ptr {
			parent = ir.Ptr(cfgT)
		}
		inj := &ir.Injector{Name: "Init", Out: r, Items: []*ir.Item{
			ir.FuncItem(&ir.Func{Pkg: p, Name: "PConfig", Out: parent}),
			ir.FieldsOfItem(cfgT, ptr, names...),
			ir.FuncItem(&ir.Func{Pkg: p, Name: "PR", Params: []*ir.Type{str, port}, Out: r}),
		}}
		prog := &ir.Program{Root: p, Injectors: []*ir.Injector{inj}}
		cs := caseFromProgram(fmt.Sprintf("C05/same-fieldsof-call/variant=%d", variant), prog, false, nil)
		reasons := []ir.Reason{{Class: "conflict", Subject: str.Key()}}
		cs.Judge = func(r *h.Result) []h.Violation { return judgeVerdict(r, reasons) }
		if c.NoteProgram(cs.Files) {
			cases = append(cases, cs)
		}
	}
	// the ambiguous injector sits in the first of two injector files (or the last)
	for swap := 0; swap < 4; swap++ {
		prog := twoFilesProgramN(2, swap%2 == 1, swap/2*2) // swap>=2: the other file holds three well-formed injectors
		cs := caseFromProgram(fmt.Sprintf("C05/two-injector-files/last=%d", swap), prog, false, nil)
		cs.Judge = judgeProgramF(prog, false, nil, map[string]bool{"conflict": true})
		if c.NoteProgram(cs.Files) {
			cases = append(cases, cs)
		}
	}
	// a conflict inside a set of another package that two root packages of one invocation both use: each of the two
	// must be rejected with the diagnostic (nothing is remembered from the first package to the second)
	for variant := 0; variant < 4; variant++ {
		b := ir.NewBuilder()
		p, lib := b.Root, b.Lib
		var t *ir.Type
		var both []*ir.Item
		switch variant {
		case 0:
			t = b.Leaf(lib, "T")
			both = []*ir.Item{ir.FuncItem(&ir.Func{Pkg: lib, Name: "PfA", Out: t}), ir.FuncItem(&ir.Func{Pkg: lib, Name: "PfB", Out: t})}
		case 1:
			t = b.Leaf(lib, "T")
			both = []*ir.Item{ir.FuncItem(&ir.Func{Pkg: lib, Name: "PfA", Out: t}), ir.ValueItem(t, 9003)}
		case 2:
			t = b.Iface(lib, "T")
			conc := b.Leaf(lib, "Conc")
			conc.Impls = []*ir.Type{t}
			both = []*ir.Item{ir.FuncItem(&ir.Func{Pkg: lib, Name: "PfA", Out: t}), ir.FuncItem(&ir.Func{Pkg: lib, Name: "PConc", Out: conc}), ir.BindItem(t, conc)}
		case 3:
			t = b.Leaf(lib, "T")
			inner := &ir.Set{Pkg: lib, Name: "Inner", Items: []*ir.Item{ir.FuncItem(&ir.Func{Pkg: lib, Name: "PfA", Out: t})}}
			both = []*ir.Item{ir.SetRef(inner), ir.FuncItem(&ir.Func{Pkg: lib, Name: "PfB", Out: t})}
		}
		set := &ir.Set{Pkg: lib, Name: "Both", Items: both}
		inj := &ir.Injector{Name: "Init", Out: t, Items: []*ir.Item{ir.SetRef(set)}}
		prog := &ir.Program{Root: p, Injectors: []*ir.Injector{inj}}
		cs := caseFromProgram(fmt.Sprintf("C05/conflict-inside-shared-set/variant=%d", variant), prog, false, nil)
		reasons := []ir.Reason{{Class: "conflict", Subject: t.Key()}}
		cs.Judge = func(r *h.Result) []h.Violation { return judgeVerdict(r, reasons) }
		cs = withTwinRoot(cs)
		if c.NoteProgram(cs.Files) {
			cases = append(cases, cs)
		}
	}
	results := c.JudgeAll(cases)
	rej := 0
	for _, r := range results {
		if r != nil && r.Root().Failed {
			rej++
		}
	}
	c.Coverage["evaluations"] = len(cases)
	c.Coverage["distinct_nontrivial"] = c.DistinctPrograms()
	c.Coverage["states"] = c.DistinctPrograms()
	c.Coverage["transitions"] = len(cases)
	c.Coverage["traces_validated_against_impl"] = len(cases)
	c.Coverage["programs_rejected"] = rej
	c.Coverage["unordered_kind_pairs_covered"] = len(pairs)
	c.Coverage["explorer"] = map[string]interface{}{"executions": st.Executions, "skipped": st.Skipped, "mode": "full product"}
	c.Coverage["rule"] = "ordered pairs over 10 source kinds (func, struct value, struct pointer, value, interface value, binding, field, pointer-to-field, injector parameter, same set twice) x 6 placements x 5 contested type kinds (named, pointer, alias vs. original, []T written twice, interface) x 2 argument orders; inexpressible combinations skipped by the renderer; every program with an injector parameter also with the parameters written with the blank identifier and unnamed; plus one set reached by its own name and through an aliasing variable, one wire.FieldsOf call listing several fields of identical type, and a conflict inside a set of another package used by two identical root packages of one invocation (both must be rejected alike). Every program must be rejected with a 'multiple bindings' diagnostic naming the contested type and must not produce output. Distinct = distinct rendered source."
	if len(cases) > 0 && len(results) == len(cases) {
		i := len(cases) / 3
		c.Samples = append(c.Samples, map[string]interface{}{"case": cases[i].ID, "wire.go": cases[i].Files["wire.go"], "diagnostics": results[i].Root().Diags})
	}
	if len(pairs) < 30 {
		c.Internalf("vacuous: only %d kind pairs expressible", len(pairs))
	}
}
