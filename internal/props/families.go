package props

import (
	"fmt"

	"verif/internal/ir"
)

// twinProgram: two packages with the SAME package name at different import paths, each
// declaring the same identifiers (type Options, func New, var Set). The root consumer needs
// both types. provideA/provideB say which twins are in the build set; viaSets uses the
// packages' set variables instead of the functions.
func twinProgram(provideA, provideB, viaSets bool, order int) *ir.Program {
	b := ir.NewBuilder()
	p := b.Root
	pa := &ir.Pkg{Name: "store", Rel: "a/store"}
	pb := &ir.Pkg{Name: "store", Rel: "b/store"}
	ta := b.Leaf(pa, "Options")
	tb := b.Leaf(pb, "Options")
	fa := &ir.Func{Pkg: pa, Name: "New", Out: ta}
	fb := &ir.Func{Pkg: pb, Name: "New", Out: tb}
	sa := &ir.Set{Pkg: pa, Name: "Set", Items: []*ir.Item{ir.FuncItem(fa)}}
	sb := &ir.Set{Pkg: pb, Name: "Set", Items: []*ir.Item{ir.FuncItem(fb)}}
	r := b.Leaf(p, "R")
	ca := b.Leaf(p, "CA")
	cb := b.Leaf(p, "CB")
	var items []*ir.Item
	if provideA {
		if viaSets {
			items = append(items, ir.SetRef(sa))
		} else {
			items = append(items, ir.FuncItem(fa))
		}
	}
	if provideB {
		if viaSets {
			items = append(items, ir.SetRef(sb))
		} else {
			items = append(items, ir.FuncItem(fb))
		}
	}
	consA := ir.FuncItem(&ir.Func{Pkg: p, Name: "PCA", Params: []*ir.Type{ta}, Out: ca})
	consB := ir.FuncItem(&ir.Func{Pkg: p, Name: "PCB", Params: []*ir.Type{tb}, Out: cb})
	pr := ir.FuncItem(&ir.Func{Pkg: p, Name: "PR", Params: []*ir.Type{ca, cb}, Out: r})
	if order == 1 {
		for i, j := 0, len(items)-1; i < j; i, j = i+1, j-1 {
			items[i], items[j] = items[j], items[i]
		}
		pr.Fn.Params = []*ir.Type{cb, ca}
		items = append(items, consB, consA, pr)
	} else {
		items = append(items, consA, consB, pr)
	}
	inj := &ir.Injector{Name: "Init", Out: r, Items: items}
	prog := &ir.Program{Root: p, Injectors: []*ir.Injector{inj}}
	if !provideA || !provideB {
		// keep the unprovided twin declared
		prog.ExtraFuncs = []*ir.Func{fa, fb}
		prog.ExtraSets = []*ir.Set{sa, sb}
	}
	return prog
}

// leakProgram: BaseSet lacks a source for X; Wrapper = NewSet(BaseSet, <item providing X>).
// InitA builds from Wrapper (accepted), InitB from BaseSet alone (X is missing). A provider map
// or cache shared between the two sets would let InitB silently see Wrapper's item.
// kind: 0 bind, 1 value, 2 func, 3 fieldsof, 4 struct, 5 interface value. order: which injector comes first.
// fat: the wrapper has a further provider of its own.
func leakProgram(kind, order int, fat bool) *ir.Program {
	b := ir.NewBuilder()
	p := b.Root
	var x *ir.Type
	var base, extra []*ir.Item
	switch kind {
	case 0:
		x = b.Iface(p, "X")
		conc := b.Leaf(p, "Conc")
		conc.Impls = []*ir.Type{x}
		base = append(base, ir.FuncItem(&ir.Func{Pkg: p, Name: "PConc", Out: conc}))
		extra = append(extra, ir.BindItem(x, conc))
	case 1:
		x = b.Leaf(p, "X")
		extra = append(extra, ir.ValueItem(x, 9001))
	case 2:
		x = b.Leaf(p, "X")
		extra = append(extra, ir.FuncItem(&ir.Func{Pkg: p, Name: "PX", Out: x}))
	case 3:
		x = b.Leaf(p, "X")
		hd := b.Agg(p, "Holder", &ir.Field{Name: "F", T: x})
		base = append(base, ir.FuncItem(&ir.Func{Pkg: p, Name: "PHolder", Out: hd}))
		extra = append(extra, ir.FieldsOfItem(hd, false, "F"))
	case 4:
		x = b.Agg(p, "X")
		extra = append(extra, ir.StructItem(x, "*"))
	case 5:
		x = b.Iface(p, "X")
		dyn := b.Leaf(p, "Dyn")
		dyn.PtrRecv = true
		dyn.Impls = []*ir.Type{x}
		extra = append(extra, ir.IfaceValueItem(x, ir.Ptr(dyn), 9002))
	}
	r := b.Leaf(p, "R")
	base = append(base, ir.FuncItem(&ir.Func{Pkg: p, Name: "PR", Params: []*ir.Type{x}, Out: r}))
	baseSet := &ir.Set{Pkg: p, Name: "BaseSet", Items: base}
	witems := append([]*ir.Item{ir.SetRef(baseSet)}, extra...)
	injA := &ir.Injector{Name: "InitA", Out: r}
	if fat {
		y := b.Leaf(p, "Y")
		witems = append(witems, ir.FuncItem(&ir.Func{Pkg: p, Name: "PY", Out: y}))
	}
	wrapper := &ir.Set{Pkg: p, Name: "Wrapper", Items: witems}
	injA.Items = []*ir.Item{ir.SetRef(wrapper)}
	injB := &ir.Injector{Name: "InitB", Out: r, Items: []*ir.Item{ir.SetRef(baseSet)}}
	prog := &ir.Program{Root: p}
	if order == 0 {
		prog.Injectors = []*ir.Injector{injA, injB}
	} else {
		prog.Injectors = []*ir.Injector{injB, injA}
	}
	return prog
}

func leakID(kind, order int, fat bool) string {
	return fmt.Sprintf("leak/kind=%d/order=%d/fat=%v", kind, order, fat)
}

// sharedBaseProgram: Base = NewSet(A); Ext = NewSet(Base, B) (Base first or last); injector 1 builds from
// Ext plus C, injector 2 from Base plus B and D listed directly. Both are well-formed whatever the order of
// the injectors; a provider map shared between Base and Ext makes the second one see B twice.
func sharedBaseProgram(order int, baseFirst bool, extKind int) *ir.Program {
	b := ir.NewBuilder()
	p := b.Root
	ta, tb, tc, td := b.Leaf(p, "A"), b.Leaf(p, "B"), b.Leaf(p, "C"), b.Leaf(p, "D")
	pa := ir.FuncItem(&ir.Func{Pkg: p, Name: "PA", Out: ta})
	var pb *ir.Item
	switch extKind {
	case 0:
		pb = ir.FuncItem(&ir.Func{Pkg: p, Name: "PB", Params: []*ir.Type{ta}, Out: tb})
	case 1:
		pb = ir.ValueItem(tb, 9001)
	case 2:
		tb = b.Agg(p, "B", &ir.Field{Name: "F", T: ta})
		pb = ir.StructItem(tb, "*")
	}
	base := &ir.Set{Pkg: p, Name: "Base", Items: []*ir.Item{pa}}
	ext := &ir.Set{Pkg: p, Name: "Ext"}
	if baseFirst {
		ext.Items = []*ir.Item{ir.SetRef(base), pb}
	} else {
		ext.Items = []*ir.Item{pb, ir.SetRef(base)}
	}
	inj1 := &ir.Injector{Name: "Init1", Out: tc, Items: []*ir.Item{ir.SetRef(ext), ir.FuncItem(&ir.Func{Pkg: p, Name: "PC", Params: []*ir.Type{ta, tb}, Out: tc})}}
	inj2 := &ir.Injector{Name: "Init2", Out: td, Items: []*ir.Item{ir.SetRef(base), pb, ir.FuncItem(&ir.Func{Pkg: p, Name: "PD", Params: []*ir.Type{tb, ta}, Out: td})}}
	inj3 := &ir.Injector{Name: "Init3", Out: ta, Items: []*ir.Item{ir.SetRef(base)}}
	prog := &ir.Program{Root: p}
	switch order {
	case 0:
		prog.Injectors = []*ir.Injector{inj1, inj2, inj3}
	case 1:
		prog.Injectors = []*ir.Injector{inj2, inj1, inj3}
	default:
		prog.Injectors = []*ir.Injector{inj3, inj2, inj1}
	}
	return prog
}

// deepChainProgram: the injector's package mentions only package mid; mid.Set includes deep.Set (and deeper.Set),
// which the injector's package never imports itself.
func deepChainProgram(levels int, viaFunc bool) *ir.Program {
	b := ir.NewBuilder()
	p := b.Root
	var pkgs []*ir.Pkg
	for i := 0; i < levels; i++ {
		pkgs = append(pkgs, &ir.Pkg{Name: fmt.Sprintf("l%d", i), Rel: fmt.Sprintf("l%d", i)})
	}
	// level i's provider needs level i+1's type; level i's set includes level i+1's set
	var prev *ir.Type
	var prevSet *ir.Set
	for i := levels - 1; i >= 0; i-- {
		t := b.Leaf(pkgs[i], "T")
		var deps []*ir.Type
		if prev != nil {
			deps = []*ir.Type{prev}
		}
		items := []*ir.Item{ir.FuncItem(&ir.Func{Pkg: pkgs[i], Name: "New", Params: deps, Out: t})}
		if prevSet != nil {
			items = append(items, ir.SetRef(prevSet))
		}
		prevSet = &ir.Set{Pkg: pkgs[i], Name: "Set", Items: items}
		prev = t
	}
	inj := &ir.Injector{Name: "Init", Out: prev, Items: []*ir.Item{ir.SetRef(prevSet)}}
	_ = viaFunc
	return &ir.Program{Root: p, Injectors: []*ir.Injector{inj}}
}

// twoSelectionsProgram: two injectors use wire.Struct on the same struct with different selections of
// fields that have the same type.
func twoSelectionsProgram(order int, ptr bool) *ir.Program {
	b := ir.NewBuilder()
	p := b.Root
	lim := b.Leaf(p, "Lim")
	other := b.Leaf(p, "Other")
	rng := b.Agg(p, "Range", &ir.Field{Name: "Min", T: lim}, &ir.Field{Name: "Max", T: lim}, &ir.Field{Name: "O", T: other})
	pl := ir.FuncItem(&ir.Func{Pkg: p, Name: "PLim", Out: lim})
	po := ir.FuncItem(&ir.Func{Pkg: p, Name: "POther", Out: other})
	var out *ir.Type = rng
	if ptr {
		out = ir.Ptr(rng)
	}
	mk := func(name string, fields ...string) *ir.Injector {
		items := []*ir.Item{ir.StructItem(rng, fields...), pl}
		for _, f := range fields {
			if f == "O" {
				items = append(items, po)
			}
		}
		return &ir.Injector{Name: name, Out: out, Items: items}
	}
	injs := []*ir.Injector{mk("InitMin", "Min"), mk("InitMax", "Max"), mk("InitMaxO", "Max", "O"), mk("InitMinO", "O", "Min")}
	if order == 1 {
		for i, j := 0, len(injs)-1; i < j; i, j = i+1, j-1 {
			injs[i], injs[j] = injs[j], injs[i]
		}
	}
	return &ir.Program{Root: p, Injectors: injs}
}

// chainBindProgram: a chain of n interface bindings I0 -> I1 -> ... -> I(n-1) -> *L, where each interface embeds
// the previous (narrower) one, so that every "concrete" type but the last is itself an interface bound in the same
// set. consumers is a bit mask over [I0, ..., I(n-1), *L]: which of them the result's provider takes. perm orders
// the n+1 items (n bindings outermost-first, then the provider of *L); wrap: 0 direct Build arguments, 1 one named set,
// 2 one inline set.
func chainBindProgram(n int, consumers int, perm []int, wrap int) *ir.Program {
	b := ir.NewBuilder()
	p := b.Root
	ifs := make([]*ir.Type, n)
	for i := 0; i < n; i++ {
		if i == 0 {
			ifs[i] = b.Iface(p, "I0")
		} else {
			ifs[i] = b.Iface(p, fmt.Sprintf("I%d", i), ifs[i-1])
		}
	}
	l := b.Leaf(p, "L")
	l.Impls = []*ir.Type{ifs[n-1]}
	l.PtrRecv = true
	conc := ir.Ptr(l)
	var core []*ir.Item
	for i := 0; i < n; i++ {
		next := conc
		if i+1 < n {
			next = ifs[i+1]
		}
		core = append(core, ir.BindItem(ifs[i], next))
	}
	core = append(core, ir.FuncItem(&ir.Func{Pkg: p, Name: "PConc", Out: conc}))
	items := make([]*ir.Item, 0, len(core))
	for _, k := range perm {
		items = append(items, core[k])
	}
	var deps []*ir.Type
	for i := 0; i <= n; i++ {
		if consumers&(1<<i) == 0 {
			continue
		}
		if i < n {
			deps = append(deps, ifs[i])
		} else {
			deps = append(deps, conc)
		}
	}
	r := b.Leaf(p, "R")
	pr := ir.FuncItem(&ir.Func{Pkg: p, Name: "PR", Params: deps, Out: r})
	inj := &ir.Injector{Name: "Init", Out: r}
	switch wrap {
	case 0:
		inj.Items = append(items, pr)
	case 1:
		inj.Items = []*ir.Item{ir.SetRef(&ir.Set{Pkg: p, Name: "ChainSet", Items: items}), pr}
	default:
		inj.Items = []*ir.Item{ir.InlineSet(&ir.Set{Pkg: p, Items: items}), pr}
	}
	return &ir.Program{Root: p, Injectors: []*ir.Injector{inj}}
}
