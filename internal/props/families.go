package props

import (
	"fmt"

	"verif/internal/ir"
)

// twinProgram: two packages with the SAME package name at different import paths, each
// declaring the same identifiers (type Options, func New, var Set). The root consumer needs
// both types. provideA/provideB say which twins are in the build set; viaSets uses the
// packages' set variables instead of the functions.
func twinProgram(provideA, provideB, viaSets bool, order int) *ir.Program {
	b := ir.NewBuilder()
	p := b.Root
	pa := &ir.Pkg{Name: "store", Rel: "a/store"}
	pb := &ir.Pkg{Name: "store", Rel: "b/store"}
	ta := b.Leaf(pa, "Options")
	tb := b.Leaf(pb, "Options")
	fa := &ir.Func{Pkg: pa, Name: "New", Out: ta}
	fb := &ir.Func{Pkg: pb, Name: "New", Out: tb}
	sa := &ir.Set{Pkg: pa, Name: "Set", Items: []*ir.Item{ir.FuncItem(fa)}}
	sb := &ir.Set{Pkg: pb, Name: "Set", Items: []*ir.Item{ir.FuncItem(fb)}}
	r := b.Leaf(p, "R")
	ca := b.Leaf(p, "CA")
	cb := b.Leaf(p, "CB")
	var items []*ir.Item
	if provideA {
		if viaSets {
			items = append(items, ir.SetRef(sa))
		} else {
			items = append(items, ir.FuncItem(fa))
		}
	}
	if provideB {
		if viaSets {
			items = append(items, ir.SetRef(sb))
		} else {
			items = append(items, ir.FuncItem(fb))
		}
	}
	consA := ir.FuncItem(&ir.Func{Pkg: p, Name: "PCA", Params: []*ir.Type{ta}, Out: ca})
	consB := ir.FuncItem(&ir.Func{Pkg: p, Name: "PCB", Params: []*ir.Type{tb}, Out: cb})
	pr := ir.FuncItem(&ir.Func{Pkg: p, Name: "PR", Params: []*ir.Type{ca, cb}, Out: r})
	if order == 1 {
		for i, j := 0, len(items)-1; i < j; i, j = i+1, j-1 {
			items[i], items[j] = items[j], items[i]
		}
		pr.Fn.Params = []*ir.Type{cb, ca}
		items = append(items, consB, consA, pr)
	} else {
		items = append(items, consA, consB, pr)
	}
	inj := &ir.Injector{Name: "Init", Out: r, Items: items}
	prog := &ir.Program{Root: p, Injectors: []*ir.Injector{inj}}
	if !provideA || !provideB {
		// keep the unprovided twin declared
		prog.ExtraFuncs = []*ir.Func{fa, fb}
		prog.ExtraSets = []*ir.Set{sa, sb}
	}
	return prog
}

// leakProgram: BaseSet lacks a source for X; Wrapper = NewSet(BaseSet, <item providing X>).
// InitA builds from Wrapper (accepted), InitB from BaseSet alone (X is missing). A provider map
// or cache shared between the two sets would let InitB silently see Wrapper's item.
// kind: 0 bind, 1 value, 2 func, 3 fieldsof, 4 struct, 5 interface value. order: which injector comes first.
// fat: the wrapper has a further provider of its own.
func leakProgram(kind, order int, fat bool) *ir.Program {
	b := ir.NewBuilder()
	p := b.Root
	var x *ir.Type
	var base, extra []*ir.Item
	switch kind {
	case 0:
		x = b.Iface(p, "X")
		conc := b.Leaf(p, "Conc")
		conc.Impls = []*ir.Type{x}
		base = append(base, ir.FuncItem(&ir.Func{Pkg: p, Name: "PConc", Out: conc}))
		extra = append(extra, ir.BindItem(x, conc))
	case 1:
		x = b.Leaf(p, "X")
		extra = append(extra, ir.ValueItem(x, 9001))
	case 2:
		x = b.Leaf(p, "X")
		extra = append(extra, ir.FuncItem(&ir.Func{Pkg: p, Name: "PX", Out: x}))
	case 3:
		x = b.Leaf(p, "X")
		hd := b.Agg(p, "Holder", &ir.Field{Name: "F", T: x})
		base = append(base, ir.FuncItem(&ir.Func{Pkg: p, Name: "PHolder", Out: hd}))
		extra = append(extra, ir.FieldsOfItem(hd, false, "F"))
	case 4:
		x = b.Agg(p, "X")
		extra = append(extra, ir.StructItem(x, "*"))
	case 5:
		x = b.Iface(p, "X")
		dyn := b.Leaf(p, "Dyn")
		dyn.PtrRecv = true
		dyn.Impls = []*ir.Type{x}
		extra = append(extra, ir.IfaceValueItem(x, ir.Ptr(dyn), 9002))
	}
	r := b.Leaf(p, "R")
	base = append(base, ir.FuncItem(&ir.Func{Pkg: p, Name: "PR", Params: []*ir.Type{x}, Out: r}))
	baseSet := &ir.Set{Pkg: p, Name: "BaseSet", Items: base}
	witems := append([]*ir.Item{ir.SetRef(baseSet)}, extra...)
	injA := &ir.Injector{Name: "InitA", Out: r}
	if fat {
		y := b.Leaf(p, "Y")
		witems = append(witems, ir.FuncItem(&ir.Func{Pkg: p, Name: "PY", Out: y}))
	}
	wrapper := &ir.Set{Pkg: p, Name: "Wrapper", Items: witems}
	injA.Items = []*ir.Item{ir.SetRef(wrapper)}
	injB := &ir.Injector{Name: "InitB", Out: r, Items: []*ir.Item{ir.SetRef(baseSet)}}
	prog := &ir.Program{Root: p}
	if order == 0 {
		prog.Injectors = []*ir.Injector{injA, injB}
	} else {
		prog.Injectors = []*ir.Injector{injB, injA}
	}
	return prog
}

func leakID(kind, order int, fat bool) string {
	return fmt.Sprintf("leak/kind=%d/order=%d/fat=%v", kind, order, fat)
}
