package props

import (
	"fmt"

	"verif/internal/ir"
)

// twinProgram: two packages with the SAME package name at different import paths, each
// declaring the same identifiers (type Options, func New, var Set). The root consumer needs
// both types. provideA/provideB say which twins are in the build set; viaSets uses the
// packages' set variables instead of the functions.
func twinProgram(provideA, provideB, viaSets bool, order int) *ir.Program {
	b := ir.NewBuilder()
	p := b.Root
	pa := &ir.Pkg{Name: "store", Rel: "a/store"}
	pb := &ir.Pkg{Name: "store", Rel: "b/store"}
	ta := b.Leaf(pa, "Options")
	tb := b.Leaf(pb, "Options")
	fa := &ir.Func{Pkg: pa, Name: "New", Out: ta}
	fb := &ir.Func{Pkg: pb, Name: "New", Out: tb}
	sa := &ir.Set{Pkg: pa, Name: "Set", Items: []*ir.Item{ir.FuncItem(fa)}}
	sb := &ir.Set{Pkg: pb, Name: "Set", Items: []*ir.Item{ir.FuncItem(fb)}}
	r := b.Leaf(p, "R")
	ca := b.Leaf(p, "CA")
	cb := b.Leaf(p, "CB")
	var items []*ir.Item
	if provideA {
		if viaSets {
			items = append(items, ir.SetRef(sa))
		} else {
			items = append(items, ir.FuncItem(fa))
		}
	}
	if provideB {
		if viaSets {
			items = append(items, ir.SetRef(sb))
		} else {
			items = append(items, ir.FuncItem(fb))
		}
	}
	consA := ir.FuncItem(&ir.Func{Pkg: p, Name: "PCA", Params: []*ir.Type{ta}, Out: ca})
	consB := ir.FuncItem(&ir.Func{Pkg: p, Name: "PCB", Params: []*ir.Type{tb}, Out: cb})
	pr := ir.FuncItem(&ir.Func{Pkg: p, Name: "PR", Params: []*ir.Type{ca, cb}, Out: r})
	if order == 1 {
		for i, j := 0, len(items)-1; i < j; i, j = i+1, j-1 {
			items[i], items[j] = items[j], items[i]
		}
		pr.Fn.Params = []*ir.Type{cb, ca}
		items = append(items, consB, consA, pr)
	} else {
		items = append(items, consA, consB, pr)
	}
	inj := &ir.Injector{Name: "Init", Out: r, Items: items}
	prog := &ir.Program{Root: p, Injectors: []*ir.Injector{inj}}
	if !provideA || !provideB {
		// keep the unprovided twin declared
		prog.ExtraFuncs = []*ir.Func{fa, fb}
		prog.ExtraSets = []*ir.Set{sa, sb}
	}
	return prog
}

// leakProgram: BaseSet lacks a source for X; Wrapper = NewSet(BaseSet, <item providing X>).
// InitA builds from Wrapper (accepted), InitB from BaseSet alone (X is missing). A provider map
// or cache shared between the two sets would let InitB silently see Wrapper's item.
// kind: 0 bind, 1 value, 2 func, 3 fieldsof, 4 struct, 5 interface value. order: which injector comes first.
// fat: the wrapper has a further provider of its own.
func leakProgram(kind, order int, fat bool) *ir.Program {
	b := ir.NewBuilder()
	p := b.Root
	var x *ir.Type
	var base, extra []*ir.Item
	switch kind {
	case 0:
		x = b.Iface(p, "X")
		conc := b.Leaf(p, "Conc")
		conc.Impls = []*ir.Type{x}
		base = append(base, ir.FuncItem(&ir.Func{Pkg: p, Name: "PConc", Out: conc}))
		extra = append(extra, ir.BindItem(x, conc))
	case 1:
		x = b.Leaf(p, "X")
		extra = append(extra, ir.ValueItem(x, 9001))
	case 2:
		x = b.Leaf(p, "X")
		extra = append(extra, ir.FuncItem(&ir.Func{Pkg: p, Name: "PX", Out: x}))
	case 3:
		x = b.Leaf(p, "X")
		hd := b.Agg(p, "Holder", &ir.Field{Name: "F", T: x})
		base = append(base, ir.FuncItem(&ir.Func{Pkg: p, Name: "PHolder", Out: hd}))
		extra = append(extra, ir.FieldsOfItem(hd, false, "F"))
	case 4:
		x = b.Agg(p, "X")
		extra = append(extra, ir.StructItem(x, "*"))
	case 5:
		x = b.Iface(p, "X")
		dyn := b.Leaf(p, "Dyn")
		dyn.PtrRecv = true
		dyn.Impls = []*ir.Type{x}
		extra = append(extra, ir.IfaceValueItem(x, ir.Ptr(dyn), 9002))
	}
	r := b.Leaf(p, "R")
	base = append(base, ir.FuncItem(&ir.Func{Pkg: p, Name: "PR", Params: []*ir.Type{x}, Out: r}))
	baseSet := &ir.Set{Pkg: p, Name: "BaseSet", Items: base}
	witems := append([]*ir.Item{ir.SetRef(baseSet)}, extra...)
	injA := &ir.Injector{Name: "InitA", Out: r}
	if fat {
		y := b.Leaf(p, "Y")
		witems = append(witems, ir.FuncItem(&ir.Func{Pkg: p, Name: "PY", Out: y}))
	}
	wrapper := &ir.Set{Pkg: p, Name: "Wrapper", Items: witems}
	injA.Items = []*ir.Item{ir.SetRef(wrapper)}
	injB := &ir.Injector{Name: "InitB", Out: r, Items: []*ir.Item{ir.SetRef(baseSet)}}
	prog := &ir.Program{Root: p}
	if order == 0 {
		prog.Injectors = []*ir.Injector{injA, injB}
	} else {
		prog.Injectors = []*ir.Injector{injB, injA}
	}
	return prog
}

func leakID(kind, order int, fat bool) string {
	return fmt.Sprintf("leak/kind=%d/order=%d/fat=%v", kind, order, fat)
}

// sharedBaseProgram: Base = NewSet(A); Ext = NewSet(Base, B) (Base first or last); injector 1 builds from
// Ext plus C, injector 2 from Base plus B and D listed directly. Both are well-formed whatever the order of
// the injectors; a provider map shared between Base and Ext makes the second one see B twice.
func sharedBaseProgram(order int, baseFirst bool, extKind int) *ir.Program {
	b := ir.NewBuilder()
	p := b.Root
	ta, tb, tc, td := b.Leaf(p, "A"), b.Leaf(p, "B"), b.Leaf(p, "C"), b.Leaf(p, "D")
	pa := ir.FuncItem(&ir.Func{Pkg: p, Name: "PA", Out: ta})
	var pb *ir.Item
	switch extKind {
	case 0:
		pb = ir.FuncItem(&ir.Func{Pkg: p, Name: "PB", Params: []*ir.Type{ta}, Out: tb})
	case 1:
		pb = ir.ValueItem(tb, 9001)
	case 2:
		tb = b.Agg(p, "B", &ir.Field{Name: "F", T: ta})
		pb = ir.StructItem(tb, "*")
	}
	base := &ir.Set{Pkg: p, Name: "Base", Items: []*ir.Item{pa}}
	ext := &ir.Set{Pkg: p, Name: "Ext"}
	if baseFirst {
		ext.Items = []*ir.Item{ir.SetRef(base), pb}
	} else {
		ext.Items = []*ir.Item{pb, ir.SetRef(base)}
	}
	inj1 := &ir.Injector{Name: "Init1", Out: tc, Items: []*ir.Item{ir.SetRef(ext), ir.FuncItem(&ir.Func{Pkg: p, Name: "PC", Params: []*ir.Type{ta, tb}, Out: tc})}}
	inj2 := &ir.Injector{Name: "Init2", Out: td, Items: []*ir.Item{ir.SetRef(base), pb, ir.FuncItem(&ir.Func{Pkg: p, Name: "PD", Params: []*ir.Type{tb, ta}, Out: td})}}
	inj3 := &ir.Injector{Name: "Init3", Out: ta, Items: []*ir.Item{ir.SetRef(base)}}
	prog := &ir.Program{Root: p}
	switch order {
	case 0:
		prog.Injectors = []*ir.Injector{inj1, inj2, inj3}
	case 1:
		prog.Injectors = []*ir.Injector{inj2, inj1, inj3}
	default:
		prog.Injectors = []*ir.Injector{inj3, inj2, inj1}
	}
	return prog
}

// deepChainProgram: the injector's package mentions only package mid; mid.Set includes deep.Set (and deeper.Set),
// which the injector's package never imports itself.
func deepChainProgram(levels int, viaFunc bool) *ir.Program {
	b := ir.NewBuilder()
	p := b.Root
	var pkgs []*ir.Pkg
	for i := 0; i < levels; i++ {
		pkgs = append(pkgs, &ir.Pkg{Name: fmt.Sprintf("l%d", i), Rel: fmt.Sprintf("l%d", i)})
	}
	// level i's provider needs level i+1's type; level i's set includes level i+1's set
	var prev *ir.Type
	var prevSet *ir.Set
	for i := levels - 1; i >= 0; i-- {
		t := b.Leaf(pkgs[i], "T")
		var deps []*ir.Type
		if prev != nil {
			deps = []*ir.Type{prev}
		}
		items := []*ir.Item{ir.FuncItem(&ir.Func{Pkg: pkgs[i], Name: "New", Params: deps, Out: t})}
		if prevSet != nil {
			items = append(items, ir.SetRef(prevSet))
		}
		prevSet = &ir.Set{Pkg: pkgs[i], Name: "Set", Items: items}
		prev = t
	}
	inj := &ir.Injector{Name: "Init", Out: prev, Items: []*ir.Item{ir.SetRef(prevSet)}}
	_ = viaFunc
	return &ir.Program{Root: p, Injectors: []*ir.Injector{inj}}
}

// twoSelectionsProgram: two injectors use wire.Struct on the same struct with different selections of
// fields that have the same type.
func twoSelectionsProgram(order int, ptr bool) *ir.Program {
	b := ir.NewBuilder()
	p := b.Root
	lim := b.Leaf(p, "Lim")
	other := b.Leaf(p, "Other")
	rng := b.Agg(p, "Range", &ir.Field{Name: "Min", T: lim}, &ir.Field{Name: "Max", T: lim}, &ir.Field{Name: "O", T: other})
	pl := ir.FuncItem(&ir.Func{Pkg: p, Name: "PLim", Out: lim})
	po := ir.FuncItem(&ir.Func{Pkg: p, Name: "POther", Out: other})
	var out *ir.Type = rng
	if ptr {
		out = ir.Ptr(rng)
	}
	mk := func(name string, fields ...string) *ir.Injector {
		items := []*ir.Item{ir.StructItem(rng, fields...), pl}
		for _, f := range fields {
			if f == "O" {
				items = append(items, po)
			}
		}
		return &ir.Injector{Name: name, Out: out, Items: items}
	}
	injs := []*ir.Injector{mk("InitMin", "Min"), mk("InitMax", "Max"), mk("InitMaxO", "Max", "O"), mk("InitMinO", "O", "Min")}
	if order == 1 {
		for i, j := 0, len(injs)-1; i < j; i, j = i+1, j-1 {
			injs[i], injs[j] = injs[j], injs[i]
		}
	}
	return &ir.Program{Root: p, Injectors: injs}
}

// chainBindProgram: a chain of n interface bindings I0 -> I1 -> ... -> I(n-1) -> *L, where each interface embeds
// the previous (narrower) one, so that every "concrete" type but the last is itself an interface bound in the same
// set. consumers is a bit mask over [I0, ..., I(n-1), *L]: which of them the result's provider takes. perm orders
// the n+1 items (n bindings outermost-first, then the provider of *L); wrap: 0 direct Build arguments, 1 one named set,
// 2 one inline set.
func chainBindProgram(n int, consumers int, perm []int, wrap int) *ir.Program {
	b := ir.NewBuilder()
	p := b.Root
	ifs := make([]*ir.Type, n)
	for i := 0; i < n; i++ {
		if i == 0 {
			ifs[i] = b.Iface(p, "I0")
		} else {
			ifs[i] = b.Iface(p, fmt.Sprintf("I%d", i), ifs[i-1])
		}
	}
	l := b.Leaf(p, "L")
	l.Impls = []*ir.Type{ifs[n-1]}
	l.PtrRecv = true
	conc := ir.Ptr(l)
	var core []*ir.Item
	for i := 0; i < n; i++ {
		next := conc
		if i+1 < n {
			next = ifs[i+1]
		}
		core = append(core, ir.BindItem(ifs[i], next))
	}
	core = append(core, ir.FuncItem(&ir.Func{Pkg: p, Name: "PConc", Out: conc}))
	items := make([]*ir.Item, 0, len(core))
	for _, k := range perm {
		items = append(items, core[k])
	}
	var deps []*ir.Type
	for i := 0; i <= n; i++ {
		if consumers&(1<<i) == 0 {
			continue
		}
		if i < n {
			deps = append(deps, ifs[i])
		} else {
			deps = append(deps, conc)
		}
	}
	r := b.Leaf(p, "R")
	pr := ir.FuncItem(&ir.Func{Pkg: p, Name: "PR", Params: deps, Out: r})
	inj := &ir.Injector{Name: "Init", Out: r}
	switch wrap {
	case 0:
		inj.Items = append(items, pr)
	case 1:
		inj.Items = []*ir.Item{ir.SetRef(&ir.Set{Pkg: p, Name: "ChainSet", Items: items}), pr}
	default:
		inj.Items = []*ir.Item{ir.InlineSet(&ir.Set{Pkg: p, Items: items}), pr}
	}
	return &ir.Program{Root: p, Injectors: []*ir.Injector{inj}}
}

// bothFormsProgram: one struct provider whose value form S and pointer form *S are both needed by one injector,
// directly (consumers of S and of *S) and through an interface bound to one of the forms. which is a bit mask over
// [consumer of S, consumer of *S, consumer of the interface]; perm orders the result provider's parameters;
// bindPtr says which form the interface is bound to.
func bothFormsProgram(which int, perm []int, bindPtr bool) *ir.Program {
	b := ir.NewBuilder()
	p := b.Root
	x := b.Leaf(p, "X")
	i := b.Iface(p, "I")
	s := b.Agg(p, "S", &ir.Field{Name: "F", T: x})
	s.Impls = []*ir.Type{i} // value receiver: both S and *S implement I
	bound := s
	if bindPtr {
		bound = ir.Ptr(s)
	}
	items := []*ir.Item{ir.StructItem(s, "*"), ir.FuncItem(&ir.Func{Pkg: p, Name: "PX", Out: x})}
	deps := make([]*ir.Type, 3)
	srcs := []*ir.Type{s, ir.Ptr(s), i}
	for k := 0; k < 3; k++ {
		if which&(1<<k) == 0 {
			continue
		}
		a := b.Leaf(p, fmt.Sprintf("A%d", k))
		items = append(items, ir.FuncItem(&ir.Func{Pkg: p, Name: fmt.Sprintf("PA%d", k), Params: []*ir.Type{srcs[k]}, Out: a}))
		deps[k] = a
	}
	if which&4 != 0 {
		items = append(items, ir.BindItem(i, bound))
	}
	var params []*ir.Type
	for _, k := range perm {
		if deps[k] != nil {
			params = append(params, deps[k])
		}
	}
	r := b.Leaf(p, "R")
	items = append(items, ir.FuncItem(&ir.Func{Pkg: p, Name: "PR", Params: params, Out: r}))
	return &ir.Program{Root: p, Injectors: []*ir.Injector{{Name: "Init", Out: r, Items: items}}}
}

func bothFormsSpecs(prefix string) []specCase {
	var out []specCase
	permutations(3, func(perm []int) {
		for which := 3; which < 8; which++ {
			if which == 4 {
				continue
			}
			for bp := 0; bp < 2; bp++ {
				perm, which, bp := perm, which, bp
				g := &GraphSpec{}
				g.custom = func(b *ir.Builder) *ir.Program { return bothFormsProgram(which, perm, bp == 1) }
				out = append(out, specCase{fmt.Sprintf("%s/both-forms/which=%03b/perm=%v/bindptr=%d", prefix, which, perm, bp), g})
			}
		}
	})
	return out
}

// injectorPairProgram: two injectors of one package with different result shapes, each over its own short chain of
// providers whose shapes its result list allows. sa/sb: bit 0 error, bit 1 cleanup (shape of the injector and of its
// providers). Nothing of the first injector (cleanup variables, error variable, local names) may show in the second.
func injectorPairProgram(sa, sb int, swap bool) *ir.Program {
	b := ir.NewBuilder()
	p := b.Root
	mk := func(tag string, s int) *ir.Injector {
		x := b.Leaf(p, "X"+tag)
		y := b.Leaf(p, "Y"+tag)
		r := b.Leaf(p, "R"+tag)
		e, c := s&1 != 0, s&2 != 0
		return &ir.Injector{Name: "Init" + tag, Out: ir.Ptr(r), Err: e, Cleanup: c, Items: []*ir.Item{
			ir.FuncItem(&ir.Func{Pkg: p, Name: "PX" + tag, Out: x, Err: e, Cleanup: c}),
			ir.FuncItem(&ir.Func{Pkg: p, Name: "PY" + tag, Params: []*ir.Type{x}, Out: y, Cleanup: c}),
			ir.FuncItem(&ir.Func{Pkg: p, Name: "PR" + tag, Params: []*ir.Type{x, y}, Out: ir.Ptr(r), Err: e}),
		}}
	}
	injs := []*ir.Injector{mk("A", sa), mk("B", sb)}
	if swap {
		injs[0], injs[1] = injs[1], injs[0]
	}
	return &ir.Program{Root: p, Injectors: injs, Hist: 2}
}

func injectorPairSpecs(prefix string) []specCase {
	var out []specCase
	for sa := 0; sa < 4; sa++ {
		for sb := 0; sb < 4; sb++ {
			if sa == sb {
				continue
			}
			sa, sb := sa, sb
			g := &GraphSpec{}
			g.custom = func(b *ir.Builder) *ir.Program { return injectorPairProgram(sa, sb, false) }
			out = append(out, specCase{fmt.Sprintf("%s/injector-pair/first=%d/second=%d", prefix, sa, sb), g})
		}
	}
	return out
}

// namedResultsSpecs: injectors declared with named results, the names chosen among those wire invents for its own
// locals (cleanup, cleanup2, err, err2, and the name it derives for the result).
func namedResultsSpecs(prefix string) []specCase {
	var out []specCase
	namings := [][]string{{"a", "cleanup", "err"}, {"res", "cleanup2", "err2"}, {"r", "c", "e"}, {"err", "err2", "cleanup"}, {"cleanup", "fn", "failure"}, {"y", "x", "pR"}}
	for ni, nm := range namings {
		for shape := 1; shape < 4; shape++ {
			nm, shape := nm, shape
			g := &GraphSpec{}
			g.custom = func(b *ir.Builder) *ir.Program {
				prog := injectorPairProgram(shape, 0, false)
				inj := prog.Injectors[0]
				prog.Injectors = prog.Injectors[:1]
				names := []string{nm[0]}
				if inj.Cleanup {
					names = append(names, nm[1])
				}
				if inj.Err {
					names = append(names, nm[2])
				}
				inj.ResultNames = names
				return prog
			}
			out = append(out, specCase{fmt.Sprintf("%s/named-results/naming=%d/shape=%d", prefix, ni, shape), g})
		}
	}
	return out
}

// longChainProgram: a chain of n providers, every one returning a cleanup (and, if errs, an error): beyond any
// threshold on the number of cleanup variables, locals or steps.
func longChainProgram(n int, errs bool) *ir.Program {
	b := ir.NewBuilder()
	p := b.Root
	var prev *ir.Type
	var items []*ir.Item
	for i := 0; i < n; i++ {
		t := b.Leaf(p, fmt.Sprintf("T%d", i))
		fn := &ir.Func{Pkg: p, Name: fmt.Sprintf("P%d", i), Out: t, Cleanup: true, Err: errs && i%3 == 0}
		if prev != nil {
			fn.Params = []*ir.Type{prev}
		}
		items = append(items, ir.FuncItem(fn))
		prev = t
	}
	return &ir.Program{Root: p, Injectors: []*ir.Injector{{Name: "Init", Out: prev, Cleanup: true, Err: errs, Items: items}}}
}

func longChainSpecs(prefix string) []specCase {
	var out []specCase
	for _, n := range []int{17, 18, 34} {
		for e := 0; e < 2; e++ {
			n, e := n, e
			g := &GraphSpec{}
			g.custom = func(b *ir.Builder) *ir.Program { return longChainProgram(n, e == 1) }
			out = append(out, specCase{fmt.Sprintf("%s/long-chain/n=%d/errs=%d", prefix, n, e), g})
		}
	}
	return out
}

// twoFilesProgram: two injector files in one package; the injector of the FIRST file (in file-name order) is
// ill-formed in the given way, the one in the last file is well-formed. bad: 0 missing provider, 1 binding to a type
// that does not implement the interface, 2 two sources for one type, 3 unused provider, 4 nothing wrong (control).
func twoFilesProgram(bad int, swapNames bool) *ir.Program { return twoFilesProgramN(bad, swapNames, 0) }

// twoFilesProgramN: as twoFilesProgram, with `extra` further well-formed injectors next to the well-formed one (the
// file without the fault then holds 1+extra injectors).
func twoFilesProgramN(bad int, swapNames bool, extra int) *ir.Program {
	b := ir.NewBuilder()
	p := b.Root
	x, y, r1, r2 := b.Leaf(p, "X"), b.Leaf(p, "Y"), b.Leaf(p, "R1"), b.Leaf(p, "R2")
	px := ir.FuncItem(&ir.Func{Pkg: p, Name: "PX", Out: x})
	pr1 := ir.FuncItem(&ir.Func{Pkg: p, Name: "PR1", Params: []*ir.Type{x}, Out: r1})
	first := &ir.Injector{Name: "InitFirst", Out: r1, File: "a_inject.go"}
	switch bad {
	case 0:
		first.Items = []*ir.Item{pr1}
	case 1:
		i := b.Iface(p, "I")
		conc := b.Leaf(p, "Conc") // implements nothing
		first.Out = i
		first.Items = []*ir.Item{ir.FuncItem(&ir.Func{Pkg: p, Name: "PConc", Out: conc}), ir.BindItem(i, conc)}
	case 2:
		first.Items = []*ir.Item{px, ir.FuncItem(&ir.Func{Pkg: p, Name: "PX2", Out: x}), pr1}
	case 3:
		first.Items = []*ir.Item{px, pr1, ir.FuncItem(&ir.Func{Pkg: p, Name: "PY", Out: y})}
	default:
		first.Items = []*ir.Item{px, pr1}
	}
	second := &ir.Injector{Name: "InitSecond", Out: r2, File: "b_inject.go", Items: []*ir.Item{px, ir.FuncItem(&ir.Func{Pkg: p, Name: "PR2", Params: []*ir.Type{x}, Out: r2})}}
	if swapNames {
		first.File, second.File = "b_inject.go", "a_inject.go" // the ill-formed one is in the last file
	}
	injs := []*ir.Injector{first, second}
	for k := 0; k < extra; k++ {
		rk := b.Leaf(p, fmt.Sprintf("RX%d", k))
		injs = append(injs, &ir.Injector{Name: fmt.Sprintf("InitExtra%d", k), Out: rk, File: second.File, Items: []*ir.Item{px, ir.FuncItem(&ir.Func{Pkg: p, Name: fmt.Sprintf("PRX%d", k), Params: []*ir.Type{x}, Out: rk})}})
	}
	return &ir.Program{Root: p, Injectors: injs}
}
