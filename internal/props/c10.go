package props

import (
	"fmt"

	"verif/internal/h"
	"verif/internal/ir"
)

func init() { register("C10", "model_checking", checkC10) }

type c10Base struct {
	name string
	spec func() *GraphSpec
}

func c10Bases(thorough bool) []c10Base {
	mk := func(n int, adj [][]int, kinds []int, tk []int, lib bool) func() *GraphSpec {
		return func() *GraphSpec {
			g := &GraphSpec{N: n, Adj: adj, Nodes: make([]NodeSpec, n), Root: n - 1}
			for i := range g.Nodes {
				g.Nodes[i].Kind = kinds[i]
				g.Nodes[i].TKind = tk[i]
				g.Nodes[i].Lib = lib
				if kinds[i] == NFunc && i%2 == 1 {
					g.Nodes[i].Cleanup = true
				}
				if kinds[i] == NFunc && i == 2 {
					g.Nodes[i].Err = true
				}
			}
			return g
		}
	}
	bases := []c10Base{
		{"value-param-func-bound-func", mk(5, [][]int{{}, {}, {0, 1}, {2}, {3, 2}}, []int{NValue, NParam, NFunc, NBound, NFunc}, []int{TLeaf, TPtr, TLeaf, 0, TPtr}, false)},
		{"func-structptr-field-ptrfield-func", mk(5, [][]int{{}, {0}, {1}, {0}, {1, 2, 3}}, []int{NFunc, NStruct, NField, NPtrField, NFunc}, []int{TInt, 0, TLeaf, 0, TLeaf}, false)},
		{"lib:ifacevalue-structv-bound-func", mk(4, [][]int{{}, {0}, {1}, {2, 0}}, []int{NValue, NStructV, NBound, NFunc}, []int{TIface, 0, 0, TSlice}, true)},
		{"diamond-funcs", mk(4, [][]int{{}, {0}, {0}, {1, 2}}, []int{NFunc, NFunc, NFunc, NFunc}, []int{TLeaf, TPtr, TIface, TLeaf}, false)},
	}
	custom := func(f func(b *ir.Builder) *ir.Program) func() *GraphSpec {
		return func() *GraphSpec { return &GraphSpec{custom: f} }
	}
	bases = append(bases,
		c10Base{"twins-same-package-name", custom(func(b *ir.Builder) *ir.Program { return twinProgram(true, true, false, 0) })},
		c10Base{"bind-to-field-and-value", custom(func(b *ir.Builder) *ir.Program {
			p := b.Root
			i1, i2 := b.Iface(p, "I1"), b.Iface(p, "I2")
			c1 := b.Leaf(p, "C1")
			c1.Impls = []*ir.Type{i1}
			c1.PtrRecv = true
			c2 := b.Leaf(p, "C2")
			c2.Impls = []*ir.Type{i2}
			gt := b.Leaf(p, "G")
			hd := b.Agg(p, "Holder", &ir.Field{Name: "F", T: ir.Ptr(c1)}, &ir.Field{Name: "G", T: gt})
			r := b.Leaf(p, "R")
			inj := &ir.Injector{Name: "Init", Out: r, Params: []ir.Param{{Name: "h", T: ir.Ptr(hd)}}, Items: []*ir.Item{
				ir.FieldsOfItem(hd, true, "F", "G"),
				ir.BindItem(i1, ir.Ptr(c1)),
				ir.ValueItem(c2, 9005),
				ir.BindItem(i2, c2),
				ir.FuncItem(&ir.Func{Pkg: p, Name: "PR", Params: []*ir.Type{i1, i2, gt}, Out: r}),
			}}
			return &ir.Program{Root: p, Injectors: []*ir.Injector{inj}}
		})},
	)
	bases = append(bases,
		c10Base{"concrete-and-its-interface-both-consumed", custom(func(b *ir.Builder) *ir.Program {
			p := b.Root
			rd := b.Iface(p, "Reader")
			st := b.Leaf(p, "Store")
			st.Impls = []*ir.Type{rd}
			st.PtrRecv = true
			app, aud := b.Leaf(p, "App"), b.Leaf(p, "Audit")
			inj := &ir.Injector{Name: "Init", Out: ir.Ptr(app), Items: []*ir.Item{
				ir.FuncItem(&ir.Func{Pkg: p, Name: "NewStore", Out: ir.Ptr(st)}),
				ir.BindItem(rd, ir.Ptr(st)),
				// the concrete type comes before the interface in one parameter list, after it in the other
				ir.FuncItem(&ir.Func{Pkg: p, Name: "NewAudit", Params: []*ir.Type{rd, ir.Ptr(st)}, Out: aud}),
				ir.FuncItem(&ir.Func{Pkg: p, Name: "NewApp", Params: []*ir.Type{ir.Ptr(st), rd, aud}, Out: ir.Ptr(app)}),
			}}
			return &ir.Program{Root: p, Injectors: []*ir.Injector{inj}}
		})},
		c10Base{"concrete-before-its-interface", custom(func(b *ir.Builder) *ir.Program {
			p := b.Root
			rd := b.Iface(p, "Reader")
			st := b.Leaf(p, "Store")
			st.Impls = []*ir.Type{rd}
			st.PtrRecv = true
			app := b.Leaf(p, "App")
			inj := &ir.Injector{Name: "Init", Out: ir.Ptr(app), Items: []*ir.Item{
				ir.FuncItem(&ir.Func{Pkg: p, Name: "NewStore", Out: ir.Ptr(st)}),
				ir.BindItem(rd, ir.Ptr(st)),
				ir.FuncItem(&ir.Func{Pkg: p, Name: "NewApp", Params: []*ir.Type{ir.Ptr(st), rd}, Out: ir.Ptr(app)}),
			}}
			return &ir.Program{Root: p, Injectors: []*ir.Injector{inj}}
		})},
	)
	bases = append(bases,
		c10Base{"struct-with-same-typed-fields-and-case-pair", custom(func(b *ir.Builder) *ir.Program {
			p := b.Root
			str := b.Leaf(p, "Str")
			lg := b.Leaf(p, "Log")
			vb := b.Leaf(p, "Verbosity")
			// two fields of one type of which only one is selected; a field and its lower-case twin
			srv := b.Agg(p, "Server", &ir.Field{Name: "Addr", T: str}, &ir.Field{Name: "Name", T: str}, &ir.Field{Name: "Log", T: ir.Ptr(lg)})
			opt := b.Agg(p, "Options", &ir.Field{Name: "verbose", T: b.Leaf(p, "Flag")}, &ir.Field{Name: "Verbose", T: vb})
			r := b.Leaf(p, "R")
			inj := &ir.Injector{Name: "Init", Out: r, Items: []*ir.Item{
				ir.StructItem(srv, "Addr", "Log"),
				ir.FuncItem(&ir.Func{Pkg: p, Name: "PStr", Out: str}),
				ir.FuncItem(&ir.Func{Pkg: p, Name: "PLog", Out: ir.Ptr(lg)}),
				ir.FuncItem(&ir.Func{Pkg: p, Name: "POpt", Out: opt}),
				ir.FieldsOfItem(opt, false, "Verbose"),
				ir.FuncItem(&ir.Func{Pkg: p, Name: "PR", Params: []*ir.Type{ir.Ptr(srv), vb}, Out: r}),
			}}
			return &ir.Program{Root: p, Injectors: []*ir.Injector{inj}}
		})},
	)
	if thorough {
		bases = append(bases,
			c10Base{"lib:six-mixed", mk(6, [][]int{{}, {}, {0}, {1, 2}, {3}, {4, 0}}, []int{NValue, NFunc, NBound, NStruct, NField, NFunc}, []int{TLeaf, TPtr, 0, 0, TInt, TLeaf}, true)})
	}
	return bases
}

// unitsOf groups the direct items into units that must stay together: a binding stays with
// the provider of its concrete type.
func unitsOf(items []*ir.Item, mergeFields bool) [][]*ir.Item {
	owner := make([]int, len(items)) // index of the unit head each item belongs to
	for i := range owner {
		owner[i] = i
	}
	// a FieldsOf moves with the function providing its struct (quick tier only)
	if mergeFields {
		for j, ft := range items {
			if ft.Kind != ir.IFieldsOf {
				continue
			}
			for i, it := range items {
				if it.Kind == ir.IFunc {
					k := it.Fn.Out.Key()
					if k == ft.T.Key() || k == "*"+ft.T.Key() {
						owner[j] = i
						break
					}
				}
			}
		}
	}
	// a binding moves with the item providing its concrete type
	for j, bt := range items {
		if bt.Kind != ir.IBind {
			continue
		}
		for i, it := range items {
			if i != j && providesKey(it, bt.Conc.Key()) {
				owner[j] = owner[i]
				break
			}
		}
	}
	var units [][]*ir.Item
	for i := range items {
		if owner[i] != i {
			continue
		}
		u := []*ir.Item{items[i]}
		for j := range items {
			if j != i && owner[j] == i {
				u = append(u, items[j])
			}
		}
		units = append(units, u)
	}
	return units
}

// providesKey reports whether the item itself provides the type with the given key.
func providesKey(it *ir.Item, key string) bool {
	switch it.Kind {
	case ir.IFunc:
		return it.Fn.Out.Key() == key
	case ir.IValue, ir.IIfaceValue:
		return it.T.Key() == key
	case ir.IStruct, ir.IStructLit:
		return it.T.Key() == key || "*"+it.T.Key() == key
	case ir.IFieldsOf:
		for _, n := range it.Names {
			if f := it.T.Strip().FieldByName(n); f != nil && (f.T.Key() == key || (it.PtrParent && "*"+f.T.Key() == key)) {
				return true
			}
		}
	}
	return false
}

func permutations(n int, visit func([]int)) {
	p := make([]int, n)
	for i := range p {
		p[i] = i
	}
	var rec func(k int)
	rec = func(k int) {
		if k == n {
			visit(append([]int{}, p...))
			return
		}
		for i := k; i < n; i++ {
			p[k], p[i] = p[i], p[k]
			rec(k + 1)
			p[k], p[i] = p[i], p[k]
		}
	}
	rec(0)
}

// setPartitions enumerates all partitions of {0..n-1} as block index per element (restricted growth strings).
func setPartitions(n int, visit func([]int, int)) {
	a := make([]int, n)
	var rec func(i, maxb int)
	rec = func(i, maxb int) {
		if i == n {
			visit(append([]int{}, a...), maxb)
			return
		}
		for b := 0; b <= maxb; b++ {
			a[i] = b
			nb := maxb
			if b == maxb {
				nb = maxb + 1
			}
			rec(i+1, nb)
		}
	}
	rec(0, 0)
}

const (
	wrapDirect = iota
	wrapNamed
	wrapNested
	wrapInline
	wrapNamedLib     // set variable declared in the lib package (only for all-lib bases)
	wrapNamedSameNam // two packages declare a set with the same variable name
	nWraps
)

func checkC10(c *h.Check) {
	thorough := c.Tier == "thorough"
	var cases []*h.Case
	kinds := tally{}
	for _, base := range c10Bases(thorough) {
		allLib := len(base.name) > 4 && base.name[:4] == "lib:"
		build := func() (*ir.Program, [][]*ir.Item) {
			g := base.spec()
			prog, _ := g.Build()
			prog.Hist = 0
			return prog, unitsOf(prog.Injectors[0].Items, !thorough)
		}
		prog0, units0 := build()
		if w := ir.NewModel().Solve(prog0.Injectors[0]); !w.Accepted() {
			c.Internalf("C10 base %s is not well-formed in the model: %v", base.name, w.Reasons)
			continue
		}
		nu := len(units0)
		add := func(id string, prog *ir.Program) {
			cs := caseFromProgram(id, prog, true, map[string]bool{"wiring": true, "cleanup": true, "error-path": true})
			if w := ir.NewModel().Solve(prog.Injectors[0]); !w.Accepted() {
				c.Internalf("C10 variant %s is not well-formed in the model: %v", id, w.Reasons)
				return
			}
			if c.NoteProgram(cs.Files) {
				cases = append(cases, cs)
			}
		}
		// (a) all permutations of the units, and the units' inner order flipped
		permutations(nu, func(perm []int) {
			for flip := 0; flip < 2; flip++ {
				prog, units := build()
				var items []*ir.Item
				for _, k := range perm {
					u := units[k]
					if flip == 1 {
						for i := len(u) - 1; i >= 0; i-- {
							items = append(items, u[i])
						}
					} else {
						items = append(items, u...)
					}
				}
				prog.Injectors[0].Items = items
				add(fmt.Sprintf("C10/perm/%s/perm=%v/flip=%d", base.name, perm, flip), prog)
				kinds.inc("permutation")
			}
		})
		// (b) all set partitions x wrap mode
		setPartitions(nu, func(block []int, nb int) {
			for wrap := 0; wrap < nWraps; wrap++ {
				if (wrap == wrapNamedLib || wrap == wrapNamedSameNam) && !allLib {
					continue
				}
				if wrap == wrapDirect && nb != nu {
					continue // direct placement is the base itself
				}
				for rev := 0; rev < 3; rev++ {
					// rev 2: order as written, and every block also carries a provider nobody needs (a set has to be
					// used only as a whole)
					passenger := rev == 2
					if passenger {
						if wrap == wrapDirect {
							continue
						}
						rev = 0
					}
					prog, units := build()
					b := ir.NewBuilder()
					_ = b
					root := prog.Root
					lib := &ir.Pkg{Name: "lib", Rel: "lib"}
					// reuse the lib package object of the program if any item lives there
					for _, u := range units {
						for _, it := range u {
							if it.Kind == ir.IFunc && it.Fn.Pkg.Rel == "lib" {
								lib = it.Fn.Pkg
							}
						}
					}
					var items []*ir.Item
					for bi := 0; bi < nb; bi++ {
						var blk []*ir.Item
						for k := 0; k < nu; k++ {
							kk := k
							if rev == 1 {
								kk = nu - 1 - k
							}
							if block[kk] == bi {
								blk = append(blk, units[kk]...)
							}
						}
						name := fmt.Sprintf("Set%d", bi)
						if passenger && len(blk) > 0 {
							pk := root
							if wrap == wrapNamedLib || (wrap == wrapNamedSameNam && bi%2 == 1) {
								pk = lib
							}
							blk = append(blk, ir.FuncItem(&ir.Func{Pkg: pk, Name: fmt.Sprintf("PPassenger%d", bi), Out: b.Leaf(pk, fmt.Sprintf("Passenger%d", bi))}))
						}
						switch wrap {
						case wrapDirect:
							items = append(items, blk...)
						case wrapNamed:
							items = append(items, ir.SetRef(&ir.Set{Pkg: root, Name: name, Items: blk}))
						case wrapNested:
							inner := &ir.Set{Pkg: root, Name: name + "Inner", Items: blk}
							items = append(items, ir.SetRef(&ir.Set{Pkg: root, Name: name, Items: []*ir.Item{ir.SetRef(inner)}}))
						case wrapInline:
							items = append(items, ir.InlineSet(&ir.Set{Pkg: root, Items: blk}))
						case wrapNamedLib:
							items = append(items, ir.SetRef(&ir.Set{Pkg: lib, Name: name, Items: blk}))
						case wrapNamedSameNam:
							// odd blocks declared in lib, even blocks in root, all under the same variable name "Set"
							pk := root
							if bi%2 == 1 {
								pk = lib
							}
							if bi >= 2 {
								items = append(items, ir.SetRef(&ir.Set{Pkg: pk, Name: fmt.Sprintf("Set%d", bi), Items: blk}))
							} else {
								items = append(items, ir.SetRef(&ir.Set{Pkg: pk, Name: "Set", Items: blk}))
							}
						}
					}
					if rev == 1 {
						for i, j := 0, len(items)-1; i < j; i, j = i+1, j-1 {
							items[i], items[j] = items[j], items[i]
						}
					}
					prog.Injectors[0].Items = items
					if passenger {
						add(fmt.Sprintf("C10/partition/%s/blocks=%v/wrap=%d/passengers", base.name, block, wrap), prog)
						kinds.inc("partition-passengers")
						break
					}
					add(fmt.Sprintf("C10/partition/%s/blocks=%v/wrap=%d/rev=%d", base.name, block, wrap, rev), prog)
					kinds.inc(fmt.Sprintf("partition-wrap%d", wrap))
				}
			}
		})
	}
	// (c) value and pointer forms of one struct provider consumed together; a provider consumed only through a binding
	{
		b := ir.NewBuilder()
		p := b.Root
		x := b.Leaf(p, "X")
		agg := b.Agg(p, "S", &ir.Field{Name: "F", T: x})
		r := b.Leaf(p, "R")
		inj := &ir.Injector{Name: "Init", Out: r, Items: []*ir.Item{
			ir.StructItem(agg, "F"), ir.FuncItem(&ir.Func{Pkg: p, Name: "PX", Out: x}),
			ir.FuncItem(&ir.Func{Pkg: p, Name: "PA", Params: []*ir.Type{agg}, Out: b.Leaf(p, "A")}),
			ir.FuncItem(&ir.Func{Pkg: p, Name: "PB", Params: []*ir.Type{ir.Ptr(agg)}, Out: b.Leaf(p, "B")}),
		}}
		inj.Items = append(inj.Items, ir.FuncItem(&ir.Func{Pkg: p, Name: "PR", Params: []*ir.Type{inj.Items[2].Fn.Out, inj.Items[3].Fn.Out}, Out: r}))
		cs := caseFromProgram("C10/struct-both-forms", &ir.Program{Root: p, Injectors: []*ir.Injector{inj}}, true, map[string]bool{"wiring": true})
		cases = append(cases, cs)
	}
	// (d) sets shared between several injectors of one package, and sets reached through a chain of packages
	for order := 0; order < 3; order++ {
		for bf := 0; bf < 2; bf++ {
			for ek := 0; ek < 3; ek++ {
				prog := sharedBaseProgram(order, bf == 1, ek)
				cs := caseFromProgram(fmt.Sprintf("C10/shared-base/order=%d/basefirst=%d/ext=%d", order, bf, ek), prog, true, map[string]bool{"wiring": true})
				if c.NoteProgram(cs.Files) {
					cases = append(cases, cs)
				}
			}
		}
	}
	for levels := 2; levels <= 4; levels++ {
		cs := caseFromProgram(fmt.Sprintf("C10/package-chain/levels=%d", levels), deepChainProgram(levels, false), true, map[string]bool{"wiring": true})
		if c.NoteProgram(cs.Files) {
			cases = append(cases, cs)
		}
	}
	// (e) chains of bindings (the "concrete" type of a binding is itself an interface bound in the same set): every
	// order of the bindings and the provider, every non-empty set of consumers that uses the outermost interface
	for n := 2; n <= 3; n++ {
		if n == 3 && !thorough {
			continue
		}
		permutations(n+1, func(perm []int) {
			for mask := 1; mask < 1<<(n+1); mask += 2 {
				for wrap := 0; wrap < 3; wrap++ {
					prog := chainBindProgram(n, mask, perm, wrap)
					id := fmt.Sprintf("C10/bind-chain/n=%d/consumers=%b/perm=%v/wrap=%d", n, mask, perm, wrap)
					add2 := caseFromProgram(id, prog, true, map[string]bool{"wiring": true})
					if w := ir.NewModel().Solve(prog.Injectors[0]); !w.Accepted() {
						c.Internalf("C10 variant %s is not well-formed in the model: %v", id, w.Reasons)
						continue
					}
					if c.NoteProgram(add2.Files) {
						cases = append(cases, add2)
						kinds.inc("bind-chain")
					}
				}
			}
		})
	}
	// longer chains: 4 bindings; quick: written outermost-first / innermost-first with the provider first or last
	{
		var perms [][]int
		if thorough {
			permutations(5, func(p []int) { perms = append(perms, p) })
		} else {
			perms = [][]int{{0, 1, 2, 3, 4}, {4, 0, 1, 2, 3}, {3, 2, 1, 0, 4}, {4, 3, 2, 1, 0}, {1, 3, 0, 4, 2}}
		}
		for _, perm := range perms {
			for _, mask := range []int{1, 31} {
				for wrap := 0; wrap < 2; wrap++ {
					prog := chainBindProgram(4, mask, perm, wrap)
					id := fmt.Sprintf("C10/bind-chain/n=4/consumers=%b/perm=%v/wrap=%d", mask, perm, wrap)
					cs := caseFromProgram(id, prog, true, map[string]bool{"wiring": true})
					if w := ir.NewModel().Solve(prog.Injectors[0]); !w.Accepted() {
						c.Internalf("C10 variant %s is not well-formed in the model: %v", id, w.Reasons)
						continue
					}
					if c.NoteProgram(cs.Files) {
						cases = append(cases, cs)
						kinds.inc("bind-chain")
					}
				}
			}
		}
	}
	results := c.JudgeAll(cases)
	stdCoverage(c, cases, results, "chains of 4 bindings (quick: five orders; thorough: all 120) with the outermost or every link consumed; (e) chains of 2 (thorough: 3) bindings whose intermediate 'concrete' types are themselves interfaces bound in the same set, in every order of bindings and provider, for every set of consumers that includes the outermost interface, directly in wire.Build, in a named set and in an inline set; (d) three injectors over a base set and a set extending it (every declaration order, base first or last, three kinds of extension), and sets reached through a chain of 2-4 packages of which the injector's package imports only the first; well-formed bases (4-5 direct items covering value, interface value, parameter, function, struct value/pointer, field, pointer-to-field, binding; thorough adds a 6-item base): ALL permutations of the Build arguments (bindings move with their provider; quick tier: a FieldsOf also moves with the provider of its struct; inner order flipped too); ALL set partitions of the items (Bell(n)) x wrap mode {named set, set nested two deep, inline NewSet, set declared in another package, same variable name declared in two packages} x both argument orders, and once more with an unneeded provider riding in every block (a set need only be used as a whole). Every variant must be accepted, and its execution trace must match the model's wiring (which does not depend on order or grouping): a differential oracle against the base. Distinct = distinct rendered source.")
	c.Coverage["variant_kinds"] = kinds.summary()
	sampleCase(c, cases, results)
	if len(cases) < 500 {
		c.Internalf("vacuous: %d cases", len(cases))
	}
}
