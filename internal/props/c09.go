package props

import (
	"fmt"
	"strings"

	"verif/internal/h"
	"verif/internal/ir"
)

func init() { register("C09", "model_checking", checkC09) }

// result-list letters
var c09Letters = []struct{ name, src string }{
	{"T", "T"},
	{"error", "error"},
	{"func", "func()"},
	{"namedfunc", "CF"},      // type CF func()
	{"aliasfunc", "AF"},      // type AF = func()
	{"otherfunc", "func(int)"},
	{"errlike", "ErrLike"},   // type ErrLike interface{ Error() string }
}

const c09Decls = `
type T struct{ ID int }
type CF func()
type AF = func()
type ErrLike interface{ Error() string }
`

func isErr(l int) bool     { return l == 1 }
func isCleanup(l int) bool { return l == 2 || l == 4 }

// legalResults is the rule table of the property statement.
func legalResults(ls []int) (legal, cleanup, err bool) {
	switch len(ls) {
	case 1:
		return true, false, false
	case 2:
		if isErr(ls[1]) {
			return true, false, true
		}
		if isCleanup(ls[1]) {
			return true, true, false
		}
	case 3:
		if isCleanup(ls[1]) && isErr(ls[2]) {
			return true, true, true
		}
	}
	return false, false, false
}

func resultList(ls []int) string {
	var parts []string
	for _, l := range ls {
		parts = append(parts, c09Letters[l].src)
	}
	switch len(parts) {
	case 0:
		return ""
	case 1:
		return " " + parts[0]
	}
	return " (" + strings.Join(parts, ", ") + ")"
}

func lettersID(ls []int) string {
	var parts []string
	for _, l := range ls {
		parts = append(parts, c09Letters[l].name)
	}
	if len(parts) == 0 {
		return "none"
	}
	return strings.Join(parts, ",")
}

const c09Header = "//go:build wireinject\n// +build wireinject\n\npackage p\n\nimport \"github.com/google/wire\"\n\n"

// shapeCase: provider (or injector) with the given result list; everything else is well-formed.
func shapeCase(provider bool, ls []int) *h.Case {
	legal, cl, er := legalResults(ls)
	var defs, wiresrc strings.Builder
	defs.WriteString("package p\n" + c09Decls + "\n")
	first := "T"
	if len(ls) > 0 {
		first = c09Letters[ls[0]].src
	}
	id := ""
	if provider {
		fmt.Fprintf(&defs, "func P()%s {\n\tpanic(\"never called\")\n}\n", resultList(ls))
		// the injector asks for the provider's first result and can return error and cleanup
		fmt.Fprintf(&wiresrc, "%sfunc Init() (%s, func(), error) {\n\tpanic(wire.Build(P))\n}\n", c09Header, first)
		id = "C09/provider-results/" + lettersID(ls)
		_, _ = cl, er
	} else {
		// position 0 of an injector is the wanted type; provide it with a plain provider
		fmt.Fprintf(&defs, "func P() %s {\n\tpanic(\"never called\")\n}\n", first)
		fmt.Fprintf(&wiresrc, "%sfunc Init()%s {\n\tpanic(wire.Build(P))\n}\n", c09Header, resultList(ls))
		id = "C09/injector-results/" + lettersID(ls)
	}
	var reasons []ir.Reason
	if !legal {
		reasons = []ir.Reason{{Class: "bad-sig", Subject: id}}
	}
	return &h.Case{ID: id, Files: map[string]string{"defs.go": defs.String(), "wire.go": wiresrc.String()}, Build: true,
		Judge: func(r *h.Result) []h.Violation {
			vs := judgeVerdict(r, reasons)
			if len(vs) == 0 && legal && r.CompileErr != "" {
				vs = append(vs, h.Violation{Symptom: "compile-error", Detail: clip(r.CompileErr, 1200) + "\n" + clip(r.GenSrc[""], 2000)})
			}
			return vs
		}}
}

func enumLetters(n, k int, visit func([]int)) {
	ls := make([]int, n)
	var rec func(i int)
	rec = func(i int) {
		if i == n {
			visit(append([]int{}, ls...))
			return
		}
		for l := 0; l < k; l++ {
			ls[i] = l
			rec(i + 1)
		}
	}
	rec(0)
}

func checkC09(c *h.Check) {
	var cases []*h.Case
	kinds := tally{}
	addCase := func(cs *h.Case, class string) {
		if c.NoteProgram(cs.Files) {
			cases = append(cases, cs)
			kinds.inc(class)
		}
	}
	for n := 0; n <= 4; n++ {
		enumLetters(n, len(c09Letters), func(ls []int) {
			legal, _, _ := legalResults(ls)
			cl := "shape-illegal"
			if legal {
				cl = "shape-legal"
			}
			addCase(shapeCase(true, ls), "provider-"+cl)
			if n == 0 || ls[0] == 0 {
				addCase(shapeCase(false, ls), "injector-"+cl)
			}
		})
	}
	// ---- IR-based families: duplicate parameter / field types, needs x has matrix ----
	addProg := func(id string, prog *ir.Program, focus map[string]bool) {
		cs := &h.Case{ID: id, Files: ir.Render(prog, true), Drive: true, Judge: judgeProgramF(prog, true, map[string]bool{"wiring": true, "error-path": true, "cleanup": true}, focus)}
		w := ir.NewModel().Solve(prog.Injectors[0])
		cl := "model:accept"
		if len(w.Reasons) > 0 {
			cl = "model:" + w.Reasons[0].Class
		}
		addCase(cs, cl)
	}
	// duplicate parameter types: identical, via alias, []T twice, variadic vs slice, pointer vs value (legal)
	for variant := 0; variant < 6; variant++ {
		for place := 0; place < 3; place++ { // result's provider, deep dependency, unused member of a nested set
			b := ir.NewBuilder()
			p := b.Root
			t := b.Leaf(p, "T")
			u := b.Leaf(p, "U")
			var params []*ir.Type
			variadic := false
			switch variant {
			case 0:
				params = []*ir.Type{t, t}
			case 1:
				params = []*ir.Type{t, b.Alias(p, "TAlias", t)}
			case 2:
				params = []*ir.Type{ir.Slice(t), ir.Slice(t)}
			case 3:
				params = []*ir.Type{ir.Slice(t), ir.Slice(t)}
				variadic = true
			case 4:
				params = []*ir.Type{t, ir.Ptr(t)} // legal: different types
			case 5:
				params = []*ir.Type{t, u, t}
			}
			d := b.Leaf(p, "D")
			r := b.Leaf(p, "R")
			dup := ir.FuncItem(&ir.Func{Pkg: p, Name: "PDup", Params: params, Out: d, Variadic: variadic})
			srcs := []*ir.Item{ir.FuncItem(&ir.Func{Pkg: p, Name: "PT", Out: t}), ir.FuncItem(&ir.Func{Pkg: p, Name: "PTs", Out: ir.Slice(t)}),
				ir.FuncItem(&ir.Func{Pkg: p, Name: "PTp", Out: ir.Ptr(t)}), ir.FuncItem(&ir.Func{Pkg: p, Name: "PU", Out: u})}
			base := &ir.Set{Pkg: p, Name: "Srcs", Items: srcs}
			inj := &ir.Injector{Name: "Init", Out: r}
			switch place {
			case 0:
				inj.Out = d
				inj.Items = []*ir.Item{dup, ir.SetRef(base)}
			case 1:
				inj.Items = []*ir.Item{ir.FuncItem(&ir.Func{Pkg: p, Name: "PR", Params: []*ir.Type{d}, Out: r}), dup, ir.SetRef(base)}
			case 2:
				inj.Items = []*ir.Item{ir.FuncItem(&ir.Func{Pkg: p, Name: "PR", Out: r}), ir.SetRef(&ir.Set{Pkg: p, Name: "Corner", Items: []*ir.Item{dup, ir.SetRef(base)}})}
			}
			addProg(fmt.Sprintf("C09/dup-param/variant=%d/place=%d", variant, place), &ir.Program{Root: p, Injectors: []*ir.Injector{inj}}, map[string]bool{"dup-param": true})
		}
	}
	// struct providers selecting two fields of identical type
	for variant := 0; variant < 7; variant++ {
		for legacy := 0; legacy < 2; legacy++ {
			b := ir.NewBuilder()
			p := b.Root
			t := b.Leaf(p, "T")
			u := b.Leaf(p, "U")
			var agg *ir.Type
			var names []string
			switch variant {
			case 0: // two fields of type T, both named
				agg = b.Agg(p, "S", &ir.Field{Name: "A", T: t}, &ir.Field{Name: "B", T: t})
				names = []string{"A", "B"}
			case 1: // "*"
				agg = b.Agg(p, "S", &ir.Field{Name: "A", T: t}, &ir.Field{Name: "B", T: t})
				names = []string{"*"}
			case 2: // "*" with one of them prevented: legal
				agg = b.Agg(p, "S", &ir.Field{Name: "A", T: t}, &ir.Field{Name: "B", T: t, Tag: `wire:"-"`})
				names = []string{"*"}
			case 3: // only one of the two selected: legal
				agg = b.Agg(p, "S", &ir.Field{Name: "A", T: t}, &ir.Field{Name: "B", T: t}, &ir.Field{Name: "C", T: u})
				names = []string{"B", "C"}
			case 5: // the second of two same-typed fields is tagged wire:"-": legal for wire.Struct("*"), but the legacy literal form selects every field
				agg = b.Agg(p, "S", &ir.Field{Name: "A", T: t}, &ir.Field{Name: "B", T: t, Tag: `wire:"-"`})
				names = []string{"*"}
			case 6: // the first one tagged
				agg = b.Agg(p, "S", &ir.Field{Name: "A", T: t, Tag: `wire:"-"`}, &ir.Field{Name: "B", T: t})
				names = []string{"*"}
			case 4: // identical via alias, not adjacent
				agg = b.Agg(p, "S", &ir.Field{Name: "A", T: t}, &ir.Field{Name: "C", T: u}, &ir.Field{Name: "B", T: b.Alias(p, "TAlias", t)})
				names = []string{"C", "A", "B"}
			}
			it := ir.StructItem(agg, names...)
			if legacy == 1 {
				if variant >= 2 && variant < 5 {
					continue
				}
				it = &ir.Item{Kind: ir.IStructLit, T: agg}
			}
			inj := &ir.Injector{Name: "Init", Out: agg, Items: []*ir.Item{it, ir.SetRef(&ir.Set{Pkg: p, Name: "Srcs", Items: []*ir.Item{ir.FuncItem(&ir.Func{Pkg: p, Name: "PT", Out: t}), ir.FuncItem(&ir.Func{Pkg: p, Name: "PU", Out: u})}})}}
			addProg(fmt.Sprintf("C09/dup-field/variant=%d/legacy=%d", variant, legacy), &ir.Program{Root: p, Injectors: []*ir.Injector{inj}}, map[string]bool{"dup-field": true})
		}
	}
	// two same-typed fields of which one carries a tag that only looks like wire's: still a duplicate under "*"
	for i, tag := range []string{`hardwire:"-"`, `xwire:"-"`, `json:"-"`, `wire:"- "`, `wire:"-,omit"`, `Wire:"-"`, `json:"wire" yaml:"-"`} {
		for first := 0; first < 2; first++ {
			b := ir.NewBuilder()
			p := b.Root
			t := b.Leaf(p, "T")
			fa, fb := &ir.Field{Name: "A", T: t}, &ir.Field{Name: "B", T: t}
			if first == 1 {
				fa.Tag = tag
			} else {
				fb.Tag = tag
			}
			agg := b.Agg(p, "S", fa, fb)
			inj := &ir.Injector{Name: "Init", Out: agg, Items: []*ir.Item{ir.StructItem(agg, "*"), ir.FuncItem(&ir.Func{Pkg: p, Name: "PT", Out: t})}}
			addProg(fmt.Sprintf("C09/dup-field/lookalike-tag=%d/first=%d", i, first), &ir.Program{Root: p, Injectors: []*ir.Injector{inj}}, map[string]bool{"dup-field": true})
		}
	}
	// needs x has with two injectors of one package sharing the needing provider: each injector is judged against
	// its own result list, whichever comes first
	for ps := 1; ps < 4; ps++ {
		for order := 0; order < 2; order++ {
			for via := 0; via < 2; via++ {
				b := ir.NewBuilder()
				p := b.Root
				d := b.Leaf(p, "D")
				r := b.Leaf(p, "R")
				needy := ir.FuncItem(&ir.Func{Pkg: p, Name: "PNeedy", Out: d, Err: ps&1 != 0, Cleanup: ps&2 != 0})
				items := func() []*ir.Item {
					if via == 1 {
						return []*ir.Item{ir.SetRef(&ir.Set{Pkg: p, Name: "Shared", Items: []*ir.Item{needy}})}
					}
					return []*ir.Item{needy}
				}
				shared := items()
				good := &ir.Injector{Name: "InitGood", Out: r, Err: true, Cleanup: true, Items: append([]*ir.Item{ir.FuncItem(&ir.Func{Pkg: p, Name: "PR", Params: []*ir.Type{d}, Out: r})}, shared...)}
				bad := &ir.Injector{Name: "InitBad", Out: d, Items: shared}
				injs := []*ir.Injector{good, bad}
				if order == 1 {
					injs = []*ir.Injector{bad, good}
				}
				prog := &ir.Program{Root: p, Injectors: injs, Hist: 2}
				cs := &h.Case{ID: fmt.Sprintf("C09/needs-has-two-injectors/provider=%d/order=%d/via=%d", ps, order, via), Files: ir.Render(prog, true), Drive: true,
					Judge: judgeProgramF(prog, true, map[string]bool{"wiring": true, "error-path": true, "cleanup": true}, map[string]bool{"inj-missing-error": true, "inj-missing-cleanup": true})}
				addCase(cs, "model:two-injectors")
			}
		}
	}
	// twin packages (same package name, same identifiers, different import paths): the signature rules are applied to
	// each provider, whichever twin is looked at first
	for order := 0; order < 2; order++ {
		for via := 0; via < 2; via++ {
			for bad := 0; bad < 3; bad++ { // which twin's New is malformed: 0 none, 1 the x twin, 2 the y twin
				twin := func(letter string, malformed bool) string {
					sig := "*" + letter
					body := "return &" + letter + "{}"
					if malformed {
						sig = "(*" + letter + ", int)"
						body = "return &" + letter + "{}, 0"
					}
					return "package store\n\nimport \"github.com/google/wire\"\n\ntype " + letter + " struct{}\n\ntype Z" + letter + " struct{}\n\nfunc New() " + sig + " { " + body + " }\n\nfunc NewZ() Z" + letter + " { return Z" + letter + "{} }\n\nvar Set = wire.NewSet(New, NewZ)\n"
				}
				useX, useY := "xstore.New", "ystore.New, ystore.NewZ"
				if via == 1 {
					useX, useY = "xstore.Set", "ystore.Set"
				}
				injX := "func InitX() *xstore.X {\n\tpanic(wire.Build(" + useX + "))\n}\n"
				if via == 1 {
					injX = "func InitX() xstore.ZX {\n\tpanic(wire.Build(" + useX + "))\n}\n" // the set's other member: New is not needed but must be valid
					if bad != 1 {
						injX = "func InitX() xstore.ZX {\n\tpanic(wire.Build(xstore.NewZ))\n}\n\nfunc InitX2() *xstore.X {\n\tpanic(wire.Build(xstore.New))\n}\n"
					}
				}
				injZ := "func InitZ() ystore.ZY {\n\tpanic(wire.Build(" + useY + "))\n}\n"
				if via == 0 {
					injZ = "func InitZ() ystore.ZY {\n\tpanic(wire.Build(ystore.NewZ))\n}\n\nfunc InitY() *ystore.Y {\n\tpanic(wire.Build(ystore.New))\n}\n"
				}
				body := injX + "\n" + injZ
				if order == 1 {
					body = injZ + "\n" + injX
				}
				files := map[string]string{
					"x/store/store.go": twin("X", bad == 1),
					"y/store/store.go": twin("Y", bad == 2),
					"wire.go":          "//go:build wireinject\n// +build wireinject\n\npackage p\n\nimport (\n\t\"github.com/google/wire\"\n\txstore \"{{ROOT}}/x/store\"\n\tystore \"{{ROOT}}/y/store\"\n)\n\n" + body,
				}
				var reasons []ir.Reason
				if bad != 0 {
					reasons = []ir.Reason{{Class: "bad-sig", Subject: "New"}}
				}
				id := fmt.Sprintf("C09/twin-packages/order=%d/via-set=%d/malformed=%d", order, via, bad)
				addCase(&h.Case{ID: id, Files: files, Build: true, Judge: func(r *h.Result) []h.Violation {
					vs := judgeVerdict(r, reasons)
					if len(vs) == 0 && len(reasons) == 0 && r.CompileErr != "" {
						vs = append(vs, h.Violation{Symptom: "compile-error", Detail: clip(r.CompileErr, 1200)})
					}
					return vs
				}}, "twin-packages")
			}
		}
	}
	// needs x has: provider shape (4) x injector shape (4) x where the needing provider sits (4)
	for ps := 0; ps < 4; ps++ {
		for is := 0; is < 4; is++ {
			for where := 0; where < 7; where++ {
				b := ir.NewBuilder()
				p := b.Root
				np := p
				if where == 3 {
					np = b.Lib
				}
				d := b.Leaf(np, "D")
				r := b.Leaf(p, "R")
				needy := ir.FuncItem(&ir.Func{Pkg: np, Name: "PNeedy", Out: d, Err: ps&1 != 0, Cleanup: ps&2 != 0})
				inj := &ir.Injector{Name: "Init", Out: r, Err: is&1 != 0, Cleanup: is&2 != 0}
				pr := ir.FuncItem(&ir.Func{Pkg: p, Name: "PR", Params: []*ir.Type{d}, Out: r})
				switch where {
				case 0: // the result's own provider
					inj.Out = d
					inj.Items = []*ir.Item{needy}
				case 1: // a dependency
					inj.Items = []*ir.Item{pr, needy}
				case 2: // in a nested set
					inj.Items = []*ir.Item{pr, ir.SetRef(&ir.Set{Pkg: p, Name: "Inner", Items: []*ir.Item{needy}})}
				case 3: // in another package's set
					inj.Items = []*ir.Item{pr, ir.SetRef(&ir.Set{Pkg: np, Name: "LibSet", Items: []*ir.Item{needy}})}
				case 5, 6: // the needing provider is variadic (5: it provides the result, 6: a dependency)
					w := b.Leaf(p, "W")
					ws := ir.FuncItem(&ir.Func{Pkg: p, Name: "PWs", Out: ir.Slice(w)})
					needy.Fn.Params = []*ir.Type{ir.Slice(w)}
					needy.Fn.Variadic = true
					if where == 5 {
						inj.Out = d
						inj.Items = []*ir.Item{needy, ws}
					} else {
						inj.Items = []*ir.Item{pr, needy, ws}
					}
				case 4: // present in a nested set but not needed: the injector need not declare anything
					inj.Items = []*ir.Item{ir.FuncItem(&ir.Func{Pkg: p, Name: "PR0", Out: r}), ir.SetRef(&ir.Set{Pkg: p, Name: "Inner", Items: []*ir.Item{needy, ir.FuncItem(&ir.Func{Pkg: p, Name: "PR0", Out: r})}})}
					inj.Items = inj.Items[1:]
				}
				addProg(fmt.Sprintf("C09/needs-has/provider=%d/injector=%d/where=%d", ps, is, where), &ir.Program{Root: p, Injectors: []*ir.Injector{inj}, Hist: 2}, map[string]bool{"inj-missing-error": true, "inj-missing-cleanup": true})
			}
		}
	}
	results := c.JudgeAll(cases)
	stdCoverage(c, cases, results, "provider result lists of length 0..4 and injector result lists of length 0..4 with each position from {value type, error, func(), named func type, alias of func(), other func type, error-like interface}: rejected iff the rule table of the statement says illegal, legal ones accepted and compiled; duplicate parameter types (identical, via alias, []T twice, variadic vs slice, T vs *T which is legal) in three positions of the closure incl. an unused corner; struct providers selecting two fields of identical type (named, \"*\", one prevented, via alias, legacy literal form, one carrying a tag that only resembles wire's); the needing provider shared by a valid and an invalid injector of one package in either order; needs x has matrix: provider shape (4) x injector shape (4) x position of the needing provider (result, dependency, nested set, other package, present but not needed), accepted ones run with fault enumeration. Distinct = distinct rendered source.")
	c.Coverage["classes"] = kinds.summary()
	sampleCase(c, cases, results)
	if kinds["provider-shape-legal"] < 10 || kinds["provider-shape-illegal"] < 100 || kinds["model:inj-missing-error"]+kinds["model:inj-missing-cleanup"] < 10 {
		c.Internalf("vacuous: %v", kinds)
	}
}
