package props

import (
	"fmt"
	"strings"

	"verif/internal/h"
)

func init() { register("C13", "model_checking", checkC13) }

// Declarations of the home package of a value expression. HOMEPKG is the package name.
const c13Home = `package HOMEPKG

import (
	"github.com/google/wire"
	cfgx "{{ROOT}}/settings"
)

var _ = cfgx.DefaultPort

type S struct {
	A int
	B string
	a int
}

type s struct{ X int }

type Named int

type NFn func() int

type I interface{ M() int }

type Impl struct{ N int }

func (i Impl) M() int { return i.N }

type Narrow interface{ Other() }

type narrowImpl struct{}

func (narrowImpl) Other() {}

var NarrowV Narrow = narrowImpl{}

const (
	hiddenC   = 4
	hiddenStr = "hidden"
)

type PImpl struct{ N int }

func (p *PImpl) M() int { return p.N }

var (
	V     = 7
	v     = 8
	Str   = "str"
	B     = true
	Arr   = [3]int{1, 2, 3}
	Sl    = []int{4, 5, 6}
	P     = &S{A: 9}
	M     = map[string]int{"k": 1}
	Iv    I = Impl{N: 3}
	Ch    = make(chan int, 1)
	Fv    = F
	Nfv   NFn = F
	SV    = S{A: 1, B: "b"}
	ImplV = Impl{N: 4}
	PP    = &P
	Fns   = []func() int{F}
	FnMap = map[string]func() int{"k": F}
	FnPtr = &Fv
	AnyFn interface{} = F
	Hold  = struct{ Fn func() int }{Fn: F}
)

func Mk() func() int { return F }

const C = 5

const NC Named = 1

const IdxC = 2

var KeyV = "kv"

func F() int { return 11 }

func Gen[T any]() T {
	var z T
	return z
}

var _ = wire.NewSet
`

type c13Expr struct {
	name   string
	expr   string // Q. = qualifier of the home package as seen from where the text is written (always written in the home package, so Q. is dropped there)
	typ    string // type, with Q. for home-qualified names
	unsafe bool   // evaluating it calls a function / receives: must be rejected
	iface  bool   // interface-typed wire.Value: must be rejected
	priv   bool   // mentions an identifier the root package cannot access when the home package is lib
	num    bool   // numeric (admits arithmetic parents)
	noEq   bool   // value cannot be compared with DeepEqual meaningfully (functions)
}

func c13Bases() []c13Expr {
	return []c13Expr{
		{name: "int-lit", expr: "3", typ: "int", num: true},
		{name: "string-lit", expr: `"s"`, typ: "string"},
		{name: "float-lit", expr: "1.5", typ: "float64", num: true},
		{name: "rune-lit", expr: "'x'", typ: "rune", num: true},
		{name: "imag-lit", expr: "2i", typ: "complex128"},
		{name: "true", expr: "true", typ: "bool"},
		{name: "const", expr: "C", typ: "int", num: true},
		{name: "var", expr: "V", typ: "int", num: true},
		{name: "unexported-var", expr: "v", typ: "int", num: true, priv: true},
		// unexported constants: compile-time constants, but the generated file of another package cannot name them
		{name: "unexported-const", expr: "hiddenC", typ: "int", num: true, priv: true},
		{name: "unexported-const-expr", expr: "Named(hiddenC + 1)", typ: "Q.Named", num: true, priv: true},
		{name: "unexported-const-string-expr", expr: "hiddenStr + \", world\"", typ: "string", priv: true},
		{name: "struct-lit", expr: "S{A: 1, B: \"x\"}", typ: "Q.S"},
		{name: "struct-lit-unkeyed", expr: "Impl{5}", typ: "Q.Impl"},
		{name: "struct-lit-private-field", expr: "S{A: 1, a: 2}", typ: "Q.S", priv: true},
		{name: "private-type-lit", expr: "s{X: 1}", typ: "Q.s", priv: true},
		{name: "addr-struct-lit", expr: "&S{A: 2}", typ: "*Q.S"},
		{name: "slice-lit", expr: "[]int{1, 2}", typ: "[]int"},
		{name: "array-lit", expr: "[2]int{1, 2}", typ: "[2]int"},
		{name: "array-ellipsis-lit", expr: "[...]int{1, 2}", typ: "[2]int"},
		{name: "map-lit", expr: "map[string]int{\"a\": 1}", typ: "map[string]int"},
		{name: "anon-struct-lit", expr: "struct{ X int }{1}", typ: "struct{ X int }"},
		{name: "nested-lit", expr: "[]S{{A: 1}, {A: 2}}", typ: "[]Q.S"},
		{name: "map-lit-const-keys", expr: "map[Named]string{NC: \"one\", Named(C): \"five\"}", typ: "map[Q.Named]string"},
		{name: "map-lit-var-keys", expr: "map[string]int{KeyV: V, Str: C}", typ: "map[string]int"},
		{name: "array-lit-const-index", expr: "[4]string{IdxC: \"two\", 0: \"zero\"}", typ: "[4]string"},
		{name: "slice-lit-const-index", expr: "[]int{IdxC: V, C: 9}", typ: "[]int"},
		{name: "struct-lit-nested-keyed", expr: "struct{ M map[string]S }{M: map[string]S{Str: {A: V}}}", typ: "struct{ M map[string]Q.S }"},
		{name: "conv-named", expr: "Named(3)", typ: "Q.Named", num: true},
		// a package the home file imports under another name, mentioned by nothing else in the generated file
		{name: "renamed-import-var", expr: "cfgx.DefaultPort", typ: "int", num: true},
		{name: "renamed-import-const-conv", expr: "Named(cfgx.Max)", typ: "Q.Named", num: true},
		{name: "renamed-import-in-lit", expr: "S{A: cfgx.DefaultPort, B: cfgx.Name}", typ: "Q.S"},
		{name: "conv-float", expr: "float64(C)", typ: "float64", num: true},
		{name: "conv-nil-ptr", expr: "(*S)(nil)", typ: "*Q.S"},
		{name: "conv-func-type", expr: "NFn(nil)", typ: "Q.NFn", noEq: true},
		{name: "neg", expr: "-V", typ: "int", num: true},
		{name: "not", expr: "!B", typ: "bool"},
		{name: "xor", expr: "^V", typ: "int", num: true},
		{name: "addr-var", expr: "&V", typ: "*int"},
		{name: "binary", expr: "V + C*2", typ: "int", num: true},
		{name: "compare", expr: "V > C", typ: "bool"},
		{name: "string-concat", expr: "Str + \"!\"", typ: "string"},
		{name: "field", expr: "SV.A", typ: "int", num: true},
		{name: "private-field", expr: "SV.a", typ: "int", num: true, priv: true},
		{name: "ptr-field", expr: "P.A", typ: "int", num: true},
		{name: "method-value", expr: "ImplV.M", typ: "func() int", noEq: true},
		{name: "index-array", expr: "Arr[1]", typ: "int", num: true},
		{name: "index-slice", expr: "Sl[2]", typ: "int", num: true},
		{name: "index-map", expr: "M[\"k\"]", typ: "int", num: true},
		{name: "slice-expr", expr: "Sl[1:2]", typ: "[]int"},
		{name: "slice3-expr", expr: "Sl[0:1:2]", typ: "[]int"},
		{name: "deref", expr: "*P", typ: "Q.S"},
		{name: "deref-deref", expr: "**PP", typ: "Q.S"},
		{name: "type-assert", expr: "Iv.(Impl)", typ: "Q.Impl"},
		{name: "paren", expr: "(V)", typ: "int", num: true},
		{name: "ptr-var", expr: "P", typ: "*Q.S"},
		{name: "map-var", expr: "M", typ: "map[string]int"},
		{name: "chan-var", expr: "Ch", typ: "chan int"},
		{name: "func-var", expr: "Fv", typ: "func() int", noEq: true},
		{name: "func-ident", expr: "F", typ: "func() int", noEq: true},
		{name: "func-lit", expr: "func() int { return 1 }", typ: "func() int", noEq: true},
		{name: "iface-var", expr: "Iv", typ: "Q.I", iface: true},
		{name: "iface-conv", expr: "I(ImplV)", typ: "Q.I", iface: true},
		// ---- evaluating these calls a function or receives ----
		{name: "call", expr: "F()", typ: "int", num: true, unsafe: true},
		{name: "method-call", expr: "ImplV.M()", typ: "int", num: true, unsafe: true},
		{name: "iface-method-call", expr: "Iv.M()", typ: "int", num: true, unsafe: true},
		{name: "funcvar-call", expr: "Fv()", typ: "int", num: true, unsafe: true},
		{name: "named-funcvar-call", expr: "Nfv()", typ: "int", num: true, unsafe: true},
		{name: "generic-call", expr: "Gen[int]()", typ: "int", num: true, unsafe: true},
		{name: "funclit-call", expr: "func() int { return 2 }()", typ: "int", num: true, unsafe: true},
		{name: "paren-call", expr: "(F)()", typ: "int", num: true, unsafe: true},
		{name: "conv-of-call", expr: "Named(F())", typ: "Q.Named", num: true, unsafe: true},
		{name: "len", expr: "len(Sl)", typ: "int", num: true, unsafe: true},
		{name: "cap", expr: "cap(Sl)", typ: "int", num: true, unsafe: true},
		{name: "new", expr: "new(S)", typ: "*Q.S", unsafe: true},
		{name: "make", expr: "make([]int, 2)", typ: "[]int", unsafe: true},
		{name: "append", expr: "append(Sl, 1)", typ: "[]int", unsafe: true},
		{name: "complex", expr: "complex(1.0, float64(V))", typ: "complex128", unsafe: true},
		{name: "real", expr: "real(complex(float64(V), 1))", typ: "float64", num: true, unsafe: true},
		{name: "recv", expr: "<-Ch", typ: "int", num: true, unsafe: true},
		{name: "call-in-lit", expr: "S{A: F()}", typ: "Q.S", unsafe: true},
		{name: "call-in-index", expr: "Arr[F()%3]", typ: "int", num: true, unsafe: true},
		{name: "call-in-binary", expr: "V + F()", typ: "int", num: true, unsafe: true},
		{name: "call-in-slice-bound", expr: "Sl[:len(Sl)-1]", typ: "[]int", unsafe: true},
		{name: "method-call-on-lit", expr: "Impl{N: 2}.M()", typ: "int", num: true, unsafe: true},
		{name: "indexed-func-call", expr: "Fns[0]()", typ: "int", num: true, unsafe: true},
		{name: "map-func-call", expr: "FnMap[\"k\"]()", typ: "int", num: true, unsafe: true},
		{name: "deref-funcptr-call", expr: "(*FnPtr)()", typ: "int", num: true, unsafe: true},
		{name: "asserted-func-call", expr: "AnyFn.(func() int)()", typ: "int", num: true, unsafe: true},
		{name: "field-func-call", expr: "Hold.Fn()", typ: "int", num: true, unsafe: true},
		{name: "call-result-call", expr: "Mk()()", typ: "int", num: true, unsafe: true},
		{name: "method-expr-call", expr: "Impl.M(ImplV)", typ: "int", num: true, unsafe: true},
		{name: "method-value-call", expr: "(ImplV.M)()", typ: "int", num: true, unsafe: true},
	}
}

// parents wrap an expression into a larger one (depth 2).
type c13Parent struct {
	name string
	wrap func(e c13Expr) (expr, typ string, ok bool)
}

func c13Parents() []c13Parent {
	return []c13Parent{
		{"whole", func(e c13Expr) (string, string, bool) { return e.expr, e.typ, true }},
		{"paren", func(e c13Expr) (string, string, bool) { return "(" + e.expr + ")", e.typ, true }},
		{"slice-elem", func(e c13Expr) (string, string, bool) {
			return "[]" + strings.ReplaceAll(e.typ, "Q.", "") + "{" + e.expr + "}", "[]" + e.typ, true
		}},
		{"struct-field", func(e c13Expr) (string, string, bool) {
			t := strings.ReplaceAll(e.typ, "Q.", "")
			return "struct{ X " + t + " }{X: " + e.expr + "}", "struct{ X " + e.typ + " }", true
		}},
		{"map-value", func(e c13Expr) (string, string, bool) {
			t := strings.ReplaceAll(e.typ, "Q.", "")
			return "map[string]" + t + "{\"k\": " + e.expr + "}", "map[string]" + e.typ, true
		}},
		{"index-of-lit", func(e c13Expr) (string, string, bool) {
			return "[]" + strings.ReplaceAll(e.typ, "Q.", "") + "{" + e.expr + "}[0]", e.typ, true
		}},
		{"binary-operand", func(e c13Expr) (string, string, bool) {
			if !e.num || e.typ == "rune" {
				return "", "", false
			}
			return "(" + e.expr + ") + 1", e.typ, true
		}},
		{"unary-operand", func(e c13Expr) (string, string, bool) {
			if !e.num {
				return "", "", false
			}
			return "-(" + e.expr + ")", e.typ, true
		}},
		{"addr-of-lit-field", func(e c13Expr) (string, string, bool) {
			t := strings.ReplaceAll(e.typ, "Q.", "")
			return "&struct{ X " + t + " }{X: " + e.expr + "}", "*struct{ X " + e.typ + " }", true
		}},
	}
}

const c13Driver = `package p

import (
	"reflect"

	"example.com/m/vt"
HOMEIMPORT
)

func verifSame(a, b interface{}) string {
	va, vb := reflect.ValueOf(a), reflect.ValueOf(b)
	switch va.Kind() {
	case reflect.Ptr, reflect.Map, reflect.Chan, reflect.UnsafePointer:
		if va.Pointer() == vb.Pointer() {
			return "1"
		}
		return "0"
	case reflect.Slice:
		if va.Len() == 0 || va.Pointer() == vb.Pointer() {
			return "1"
		}
		return "0"
	}
	return "-"
}

func verifEq(a, b interface{}) string {
	if reflect.DeepEqual(a, b) {
		return "1"
	}
	return "0"
}

func VerifDrive() {
	vt.Case("{{CASE}}")
	a, b := InitV(), InitV()
	c := InitV2()
	vt.Note("eq " + verifEq(a, HOMEQExpected) + verifEq(b, HOMEQExpected) + verifEq(c, HOMEQExpected))
	vt.Note("same " + verifSame(a, b) + verifSame(a, c))
}
`

func c13Render(expr, typ string, homeLib, ifaceValue bool, ifaceType string) map[string]string {
	files := map[string]string{}
	homePkg, q := "p", ""
	if homeLib {
		homePkg, q = "lib", "lib."
	}
	home := strings.ReplaceAll(c13Home, "HOMEPKG", homePkg)
	val := "wire.Value(" + expr + ")"
	if ifaceValue {
		val = "wire.InterfaceValue(new(" + ifaceType + "), " + expr + ")"
	}
	home += "\nvar Set = wire.NewSet(" + val + ")\n\nvar Expected = " + expr + "\n"
	rootType := strings.ReplaceAll(typ, "Q.", q)
	if ifaceValue {
		rootType = q + ifaceType
	}
	imp := ""
	if homeLib {
		files["lib/lib.go"] = home
		imp = "\t\"{{ROOT}}/lib\"\n"
	} else {
		files["home.go"] = home
	}
	files["settings/settings.go"] = "package settings\n\nvar DefaultPort = 8080\n\nconst Max = 9\n\nvar Name = \"svc\"\n"
	files["wire.go"] = "//go:build wireinject\n// +build wireinject\n\npackage p\n\nimport (\n\t\"github.com/google/wire\"\n" + imp + ")\n\nfunc InitV() " + rootType + " {\n\tpanic(wire.Build(" + q + "Set))\n}\n\nfunc InitV2() " + rootType + " {\n\tpanic(wire.Build(" + q + "Set))\n}\n"
	drv := strings.ReplaceAll(c13Driver, "HOMEIMPORT", imp)
	drv = strings.ReplaceAll(drv, "HOMEQ", q)
	files["driver.go"] = drv
	return files
}

func checkC13(c *h.Check) {
	thorough := c.Tier == "thorough"
	var cases []*h.Case
	kinds := tally{}
	add := func(id string, files map[string]string, mustReject bool, why string, noEq bool) {
		cs := &h.Case{ID: id, Files: files, Drive: true}
		cs.Judge = func(r *h.Result) []h.Violation {
			if r.Crashed {
				return []h.Violation{{Symptom: "crash", Detail: clip(r.Raw, 1200)}}
			}
			if r.TimedOut {
				return []h.Violation{{Symptom: "timeout", Detail: "wire did not terminate"}}
			}
			if r.LoadFailed {
				return []h.Violation{{Symptom: "harness-illtyped", Detail: clip(r.AllDiags(), 800)}}
			}
			root := r.Root()
			if mustReject {
				if !root.Failed {
					return []h.Violation{{Symptom: "accepted-unsafe:" + why, Detail: "wire accepted a value expression it must refuse (" + why + "); generated:\n" + clip(r.GenSrc[""], 1500)}}
				}
				if _, wrote := r.GenSrc[""]; wrote {
					return []h.Violation{{Symptom: "output-on-failure", Detail: "wire_gen.go written although generation failed"}}
				}
				return nil
			}
			if root.Failed {
				return nil // spurious rejection of a safe expression is not a violation of C13
			}
			if r.CompileErr != "" {
				return []h.Violation{{Symptom: "compile-error", Detail: "accepted value expression, but the generated package does not compile:\n" + clip(r.CompileErr, 1000) + "\n" + clip(r.GenSrc[""], 1500)}}
			}
			if !r.Ran {
				return []h.Violation{{Symptom: "harness-notrun", Detail: "accepted but not run"}}
			}
			if r.Panicked {
				return []h.Violation{{Symptom: "generated-code-panic", Detail: strings.Join(r.Trace, "\n")}}
			}
			var vs []h.Violation
			for _, l := range r.Trace {
				f := strings.Fields(l)
				if len(f) == 3 && f[0] == "N" && f[1] == "eq" && !noEq && f[2] != "111" {
					vs = append(vs, h.Violation{Symptom: "wrong-value", Detail: "the injector does not return the value of the written expression (eq flags " + f[2] + " for call 1, call 2, second injector)\n" + clip(r.GenSrc[""], 1500)})
				}
				if len(f) == 3 && f[0] == "N" && f[1] == "same" && strings.Contains(f[2], "0") {
					vs = append(vs, h.Violation{Symptom: "not-evaluated-once", Detail: "two injector calls (or two injectors sharing the expression) observe different pointers (flags " + f[2] + ")\n" + clip(r.GenSrc[""], 1500)})
				}
			}
			return vs
		}
		if strings.HasSuffix(id, "/twin-root") {
			cs.ID = strings.TrimSuffix(id, "/twin-root")
			cs = withTwinRoot(cs)
			files = cs.Files
		}
		if c.NoteProgram(files) {
			cases = append(cases, cs)
			if mustReject {
				kinds.inc("must-reject:" + why)
			} else {
				kinds.inc("safe")
			}
		}
	}
	bases := c13Bases()
	parents := c13Parents()
	if thorough {
		// depth 3: every parent applied on top of every parent
		var deeper []c13Expr
		for _, e := range bases {
			for _, p := range parents[1:] {
				if expr, typ, ok := p.wrap(e); ok {
					d := e
					d.name = e.name + "+" + p.name
					d.expr, d.typ = expr, typ
					if p.name != "binary-operand" && p.name != "unary-operand" && p.name != "paren" && p.name != "index-of-lit" {
						d.num = false
					}
					if d.iface && p.name != "paren" && p.name != "index-of-lit" {
						d.iface = false // wrapped in a composite: the value itself is no longer interface-typed
					}
					deeper = append(deeper, d)
				}
			}
		}
		bases = append(bases, deeper...)
	}
	for _, e := range bases {
		for _, p := range parents {
			expr, typ, ok := p.wrap(e)
			if !ok {
				continue
			}
			for home := 0; home < 2; home++ {
				if home == 1 && strings.Contains(typ, "Q.s") {
					continue // the injector's package cannot even name the unexported type: not a type-correct program
				}
				why := ""
				switch {
				case e.unsafe:
					why = "call-or-receive"
				case e.iface && p.name == "whole", e.iface && p.name == "paren", e.iface && p.name == "index-of-lit":
					why = "interface-typed"
				case e.priv && home == 1:
					why = "inaccessible"
				}
				if strings.HasPrefix(p.name, "struct-field") || strings.HasPrefix(p.name, "addr-of-lit-field") {
					// anonymous struct types with fields of the home package's types are identical across packages only if exported; keep
				}
				add(fmt.Sprintf("C13/value/%s/parent=%s/home=%d", e.name, p.name, home), c13Render(expr, typ, home == 1, false, ""), why != "", why, e.noEq)
				if home == 1 && p.name == "whole" {
					// the same set of the other package used by two identical root packages in one invocation
					add(fmt.Sprintf("C13/value/%s/parent=%s/home=%d/twin-root", e.name, p.name, home), c13Render(expr, typ, true, false, ""), why != "", why, e.noEq)
				}
			}
		}
	}
	// wire.InterfaceValue
	ivals := []struct {
		name, expr string
		impl       bool
		unsafe     bool
	}{
		{"impl-lit", "Impl{N: 6}", true, false}, {"impl-var", "ImplV", true, false}, {"ptr-impl-lit", "&PImpl{N: 7}", true, false},
		{"not-impl", "SV", false, false}, {"value-of-ptr-recv", "PImpl{N: 1}", false, false}, {"iface-var", "Iv", true, false},
		{"call", "Impl{N: F()}", true, true}, {"conv", "Impl(ImplV)", true, false},
		{"value-of-unrelated-interface-type", "NarrowV", false, false}, {"nil-of-interface-type", "Narrow(nil)", false, false},
	}
	for _, v := range ivals {
		for home := 0; home < 2; home++ {
			why := ""
			if v.unsafe {
				why = "call-or-receive"
			} else if !v.impl {
				why = "does-not-implement"
			}
			add(fmt.Sprintf("C13/ifacevalue/%s/home=%d", v.name, home), c13Render(v.expr, "", home == 1, true, "I"), why != "", why, false)
		}
	}
	// the same expression text and type in two different packages, two injectors in one file
	for _, e := range []struct{ name, expr, typ string }{{"var", "Greeting", "string"}, {"lit-field", "Cfg{N: Base}", "Q.Cfg"}, {"addr", "&Greeting", "*string"}} {
		add("C13/twin-text/"+e.name, c13Twin(e.expr, e.typ), false, "", false)
	}
	// one injector with value expressions written in two packages that both declare the identifiers they mention
	for order := 0; order < 3; order++ {
		add(fmt.Sprintf("C13/values-from-two-packages/order=%d", order), c13Mixed(order), false, "", false)
	}
	// value providers declared by one var specification with several names and parallel initialisers
	for home := 0; home < 2; home++ {
		for n := 2; n <= 3; n++ {
			for form := 0; form < 2; form++ {
				add(fmt.Sprintf("C13/multi-name-spec/home=%d/n=%d/form=%d", home, n, form), c13MultiSpec(home == 1, n, form), false, "", false)
			}
		}
	}
	_ = thorough
	results := c.JudgeAll(cases)
	acc, rej := 0, 0
	for _, r := range results {
		if r == nil || r.NotRun {
			continue
		}
		if r.Root().Failed {
			rej++
		} else {
			acc++
		}
	}
	c.Coverage["evaluations"] = len(cases)
	c.Coverage["distinct_nontrivial"] = c.DistinctPrograms()
	c.Coverage["states"] = c.DistinctPrograms()
	c.Coverage["transitions"] = len(cases)
	c.Coverage["traces_validated_against_impl"] = len(cases)
	c.Coverage["accepted_and_executed"] = acc
	c.Coverage["rejected"] = rej
	c.Coverage["classes"] = kinds.summary()
	c.Coverage["rule"] = fmt.Sprintf("%d base expression forms (literals of every basic kind, composite literals of struct/array/[...]/slice/map/pointer/anonymous struct, conversions to named/func/pointer types, unary and binary operators, selectors of variables/fields/method values, indexing, slicing incl. 3-index, dereference, type assertion, function literals; calls of functions, methods, func variables, variables of named func type, generic instantiations, function literals, every builtin, receive; interface-typed values; unexported variables, types and fields) x %d parents (whole, parenthesised, slice element, struct field, map value, indexed literal, binary/unary operand, address of a literal) x home package {injector's, another}; wire.InterfaceValue with implementing / non-implementing / calling values; identical expression text in two packages used by two injectors; value providers declared by one var specification with several names (one injector per name). Must-reject classes must be rejected with nothing written; accepted expressions are compiled and run: both calls and a second injector sharing the expression must return a value DeepEqual to the same expression evaluated in its home package, and pointer-like results must be the very same pointer. Distinct = distinct rendered source.", len(bases), len(parents))
	if len(cases) > 0 && len(results) == len(cases) {
		i := len(cases) / 2
		c.Samples = append(c.Samples, map[string]interface{}{"case": cases[i].ID, "files": cases[i].Files, "trace": results[i].Trace})
	}
	c.Assumptions = append(c.Assumptions, "spurious rejections of safe expressions are not violations of C13 (only accepted-unsafe and accepted-but-wrong are)")
	if c.Only == "" && (acc < 100 || kinds["must-reject:call-or-receive"] < 50) {
		c.Internalf("vacuous: accepted %d, classes %v", acc, kinds)
	}
}

// c13Twin: packages liba and libb both write wire.Value(<same text>) about their own
// identifiers; the root has one injector per package. Each must return its own package's value.
func c13Twin(expr, typ string) map[string]string {
	files := map[string]string{}
	for i, name := range []string{"liba", "libb"} {
		files[name+"/lib.go"] = fmt.Sprintf("package %s\n\nimport \"github.com/google/wire\"\n\ntype Cfg struct{ N int }\n\nvar Greeting = \"hello from %s\"\n\nvar Base = %d\n\nvar Set = wire.NewSet(wire.Value(%s))\n\nvar Expected = %s\n", name, name, 10+i, expr, expr)
	}
	ta, tb := strings.ReplaceAll(typ, "Q.", "liba."), strings.ReplaceAll(typ, "Q.", "libb.")
	files["wire.go"] = "//go:build wireinject\n// +build wireinject\n\npackage p\n\nimport (\n\t\"github.com/google/wire\"\n\t\"{{ROOT}}/liba\"\n\t\"{{ROOT}}/libb\"\n)\n\nfunc InitA() " + ta + " {\n\tpanic(wire.Build(liba.Set))\n}\n\nfunc InitB() " + tb + " {\n\tpanic(wire.Build(libb.Set))\n}\n"
	files["driver.go"] = `package p

import (
	"reflect"

	"example.com/m/vt"
	"{{ROOT}}/liba"
	"{{ROOT}}/libb"
)

func verifEq(a, b interface{}) string {
	if reflect.DeepEqual(a, b) {
		return "1"
	}
	return "0"
}

func VerifDrive() {
	vt.Case("{{CASE}}")
	vt.Note("eq " + verifEq(InitA(), liba.Expected) + verifEq(InitB(), libb.Expected) + verifEq(InitA(), liba.Expected))
}
`
	return files
}

// c13Mixed: package liba declares Default and a set holding wire.Value(Default); the injector's package declares its
// own Default and lists a value expression of its own next to liba's set. Each expression keeps the meaning it has
// where it was written.
func c13Mixed(order int) map[string]string {
	files := map[string]string{}
	files["liba/lib.go"] = "package liba\n\nimport \"github.com/google/wire\"\n\ntype Msg string\n\nvar Default Msg = \"greeting of liba\"\n\nvar Set = wire.NewSet(wire.Value(Default))\n"
	items := []string{"NewPair", "liba.Set", "wire.Value(Port(Base + 80))"}
	switch order {
	case 1:
		items = []string{"wire.Value(Port(Base + 80))", "liba.Set", "NewPair"}
	case 2:
		items = []string{"liba.Set", "NewPair", "wire.Value(Port(Base + 80))"}
	}
	files["home.go"] = "package p\n\nimport \"{{ROOT}}/liba\"\n\ntype Port int\n\ntype Pair struct {\n\tM liba.Msg\n\tP Port\n}\n\nvar Default liba.Msg = \"greeting of the injector's package\"\n\nvar Base = 8000\n\nfunc NewPair(m liba.Msg, p Port) Pair { return Pair{m, p} }\n"
	files["wire.go"] = "//go:build wireinject\n// +build wireinject\n\npackage p\n\nimport (\n\t\"github.com/google/wire\"\n\t\"{{ROOT}}/liba\"\n)\n\nfunc InitV() Pair {\n\tpanic(wire.Build(" + strings.Join(items, ", ") + "))\n}\n"
	files["driver.go"] = `package p

import (
	"example.com/m/vt"
	"{{ROOT}}/liba"
)

func b2s(b bool) string {
	if b {
		return "1"
	}
	return "0"
}

func VerifDrive() {
	vt.Case("{{CASE}}")
	a, b := InitV(), InitV()
	vt.Note("eq " + b2s(a.M == liba.Default) + b2s(a.P == Port(Base+80)) + b2s(a == b))
}
`
	return files
}

// c13MultiSpec: `var V0, V1[, V2] = wire.Value(e0), wire.Value(e1)[, ...]` (form 0) or the same names holding
// one-element sets (form 1), in the injector's package or in another one; one injector per name, each of which
// must return the value of its own expression.
func c13MultiSpec(homeLib bool, n, form int) map[string]string {
	files := map[string]string{}
	pkg, q, imp := "p", "", ""
	if homeLib {
		pkg, q, imp = "lib", "lib.", "\t\"{{ROOT}}/lib\"\n"
	}
	var names, inits, exps, injs, notes []string
	for i := 0; i < n; i++ {
		e := fmt.Sprintf("Cfg{Name: \"v%d\", Port: Base + %d}", i, i)
		v := "wire.Value(" + e + ")"
		if form == 1 {
			v = "wire.NewSet(" + v + ")"
		}
		names = append(names, fmt.Sprintf("V%d", i))
		inits = append(inits, v)
		exps = append(exps, e)
		injs = append(injs, fmt.Sprintf("func Init%d() %sCfg {\n\tpanic(wire.Build(%sV%d))\n}\n", i, q, q, i))
		notes = append(notes, fmt.Sprintf("verifEq(Init%d(), %sExpected[%d])", i, q, i))
	}
	if n == 2 {
		notes = append(notes, fmt.Sprintf("verifEq(Init1(), %sExpected[1])", q))
	}
	home := "package " + pkg + "\n\nimport \"github.com/google/wire\"\n\ntype Cfg struct {\n\tName string\n\tPort int\n}\n\nvar Base = 5000\n\nvar " + strings.Join(names, ", ") + " = " + strings.Join(inits, ", ") + "\n\nvar Expected = []Cfg{" + strings.Join(exps, ", ") + "}\n"
	if homeLib {
		files["lib/lib.go"] = home
	} else {
		files["home.go"] = home
	}
	files["wire.go"] = "//go:build wireinject\n// +build wireinject\n\npackage p\n\nimport (\n\t\"github.com/google/wire\"\n" + imp + ")\n\n" + strings.Join(injs, "\n")
	files["driver.go"] = "package p\n\nimport (\n\t\"reflect\"\n\n\t\"example.com/m/vt\"\n" + imp + ")\n\nfunc verifEq(a, b interface{}) string {\n\tif reflect.DeepEqual(a, b) {\n\t\treturn \"1\"\n\t}\n\treturn \"0\"\n}\n\nfunc VerifDrive() {\n\tvt.Case(\"{{CASE}}\")\n\tvt.Note(\"eq \" + " + strings.Join(notes, " + ") + ")\n}\n"
	return files
}
