package props

import (
	"fmt"
	"strings"

	"verif/internal/explore"
	"verif/internal/h"
	"verif/internal/ir"
)

func init() {
	register("C06", "model_checking", checkC06)
}

// reachableDag reports whether every node is reachable from the last node.
func reachableDag(n int, adj [][]int) bool {
	seen := make([]bool, n)
	var dfs func(int)
	dfs = func(u int) {
		if seen[u] {
			return
		}
		seen[u] = true
		for _, v := range adj[u] {
			dfs(v)
		}
	}
	dfs(n - 1)
	for _, s := range seen {
		if !s {
			return false
		}
	}
	return true
}

// baseSpecs: accepted base programs: every DAG on n nodes with all nodes reachable, one node
// kind / type shape deviation, both placements (named set, direct), lib placement.
func baseSpecs(n, devBound int, visit func(id string, mk func() *GraphSpec)) {
	for mask := uint64(0); mask < 1<<uint(dagEdgeBits(n)); mask++ {
		adj := dagAdj(n, mask)
		if !reachableDag(n, adj) {
			continue
		}
		m := mask
		explore.Run(devBound, func(x *explore.Ctx) {
			for i := 0; i < n; i++ {
				k := x.Choose(fmt.Sprintf("kind%d", i), 8)
				if (k == NValue || k == NParam) && len(adj[i]) > 0 {
					x.Skip()
					return
				}
				if k == NFunc || k == NValue || k == NParam {
					x.Choose(fmt.Sprintf("tkind%d", i), 5)
				}
			}
			if x.Choose("inset", 3) == 1 { // 0 direct arguments, 1 named set, 2 inline wire.NewSet
				x.Choose("depth", 3)
			}
			x.Choose("lib", n+1)
		}, func(x *explore.Ctx) {
			ch := x.Map()
			id := fmt.Sprintf("n=%d/dag=%d/%s", n, m, x.ID())
			visit(id, func() *GraphSpec {
				g := &GraphSpec{N: n, Adj: adj, Nodes: make([]NodeSpec, n), Root: n - 1, InSet: ch["inset"] == 1, Inline: ch["inset"] == 2}
				for i := 0; i < n; i++ {
					g.Nodes[i].Kind = ch[fmt.Sprintf("kind%d", i)]
					g.Nodes[i].TKind = ch[fmt.Sprintf("tkind%d", i)]
					g.Nodes[i].Lib = i < ch["lib"]
				}
				g.Split = g.InSet && ch["lib"] > 0
				g.Depth = ch["depth"]
				return g
			})
		})
	}
}

func checkC06(c *h.Check) {
	thorough := c.Tier == "thorough"
	focus := map[string]bool{"missing": true, "bind-unprovided": true}
	var cases []*h.Case
	kinds := tally{}
	add := func(id string, g *GraphSpec, expectReject bool) {
		prog, _ := g.Build()
		cs := &h.Case{ID: id, Files: ir.Render(prog, true), Drive: true, Judge: judgeProgramF(prog, true, map[string]bool{"wiring": true}, focus)}
		if !c.NoteProgram(cs.Files) {
			return
		}
		w := ir.NewModel().Solve(prog.Injectors[0])
		if len(w.Reasons) > 0 {
			kinds.inc("model:" + w.Reasons[0].Class)
		} else {
			kinds.inc("model:accept")
		}
		cases = append(cases, cs)
	}
	// Family A: every accepted base with each single item left out.
	devs := map[int]int{1: 3, 2: 3, 3: 2, 4: 1}
	if thorough {
		devs = map[int]int{1: 4, 2: 4, 3: 3, 4: 2, 5: 0}
	}
	for n := 1; n <= 5; n++ {
		d, ok := devs[n]
		if !ok {
			continue
		}
		baseSpecs(n, d, func(id string, mk func() *GraphSpec) {
			g0 := mk()
			g0.Build()
			for k := 1; k <= g0.NItems; k++ {
				g := mk()
				g.Drop = k
				add(fmt.Sprintf("C06/drop/%s/drop=%d", id, k), g, true)
			}
		})
	}
	// Family B: near-miss substitutions for one needed type.
	shapes := [][][]int{
		{{}},
		{{}, {0}},
		{{}, {0}, {1}},
		{{}, {0}, {0}, {1, 2}},
	}
	for si, adj := range shapes {
		n := len(adj)
		for k := 0; k < n; k++ {
			for mode := 1; mode < nNearModes; mode++ {
				for inset := 0; inset < 2; inset++ {
					g := &GraphSpec{N: n, Adj: adj, Nodes: make([]NodeSpec, n), Root: n - 1, InSet: inset == 1}
					g.Nodes[k].Provide = mode
					switch mode {
					case NearElemOf:
						g.Nodes[k].TKind = TPtr
					case NearImplNoBind:
						g.Nodes[k].TKind = TIface
					case NearUnderlying, NearOtherNamed:
						g.Nodes[k].TKind = TInt
					case NearNamed:
						g.Nodes[k].TKind = TBasic
					}
					add(fmt.Sprintf("C06/nearmiss/shape=%d/node=%d/mode=%d/inset=%d", si, k, mode, inset), g, mode != NearAlias)
				}
			}
		}
	}
	// Family C: twins -- two packages with the same package name and the same identifiers; one twin unprovided.
	addProg := func(id string, prog *ir.Program) {
		cs := &h.Case{ID: id, Files: ir.Render(prog, true), Drive: true, Judge: judgeProgramF(prog, true, map[string]bool{"wiring": true}, focus)}
		if !c.NoteProgram(cs.Files) {
			return
		}
		reject := false
		for _, inj := range prog.Injectors {
			if w := ir.NewModel().Solve(inj); len(w.Reasons) > 0 {
				reject = true
				kinds.inc("model:" + w.Reasons[0].Class)
			}
		}
		if !reject {
			kinds.inc("model:accept")
		}
		cases = append(cases, cs)
	}
	for a := 0; a < 2; a++ {
		for bb := 0; bb < 2; bb++ {
			for via := 0; via < 2; via++ {
				for order := 0; order < 2; order++ {
					addProg(fmt.Sprintf("C06/twins/a=%d/b=%d/sets=%d/order=%d", a, bb, via, order), twinProgram(a == 1, bb == 1, via == 1, order))
				}
			}
		}
	}
	// Family D: two injectors over shared set objects; the second lacks what the first one's wrapper set adds.
	for kind := 0; kind < 6; kind++ {
		for order := 0; order < 2; order++ {
			for fat := 0; fat < 2; fat++ {
				addProg("C06/"+leakID(kind, order, fat == 1), leakProgram(kind, order, fat == 1))
			}
		}
	}
	// Family E: struct providers with "*" whose fields carry tags that merely look like wire's: the field is
	// still needed, so a missing source for it must be reported (and named), not skipped.
	for ti, tag := range []string{`json:"-"`, `yaml:"-" json:"x"`, `wire:"x"`, `wire:"- "`, `xwire:"-"`, `json:"wire:\"-\""`} {
		for prov := 0; prov < 2; prov++ {
			b := ir.NewBuilder()
			p := b.Root
			db, lg := b.Leaf(p, "DB"), b.Leaf(p, "Logger")
			srv := b.Agg(p, "Server", &ir.Field{Name: "DB", T: ir.Ptr(db)}, &ir.Field{Name: "Log", T: ir.Ptr(lg), Tag: tag})
			items := []*ir.Item{ir.FuncItem(&ir.Func{Pkg: p, Name: "NewDB", Out: ir.Ptr(db)}), ir.StructItem(srv, "*")}
			if prov == 1 {
				items = append(items, ir.FuncItem(&ir.Func{Pkg: p, Name: "NewLogger", Out: ir.Ptr(lg)}))
			}
			inj := &ir.Injector{Name: "Init", Out: ir.Ptr(srv), Items: items}
			addProg(fmt.Sprintf("C06/lookalike-tag/tag=%d/provided=%d", ti, prov), &ir.Program{Root: p, Injectors: []*ir.Injector{inj}})
		}
	}
	// the injector with the missing source sits in the first of two injector files (or the last; or none: control)
	for _, bad := range []int{0, 4} {
		for swap := 0; swap < 2; swap++ {
			addProg(fmt.Sprintf("C06/two-injector-files/bad=%d/last=%d", bad, swap), twoFilesProgram(bad, swap == 1))
			addProg(fmt.Sprintf("C06/two-injector-files/bad=%d/last=%d/extra=2", bad, swap), twoFilesProgramN(bad, swap == 1, 2))
		}
	}
	// Family F: one removal that leaves two types without a source (both forms of a struct provider; both members of a
	// removed set), needed by siblings in every parameter order: every one of them is named.
	for variant := 0; variant < 2; variant++ {
		for oa := 0; oa < 2; oa++ {
			for ob := 0; ob < 2; ob++ {
				b := ir.NewBuilder()
				p := b.Root
				var m1, m2 *ir.Type
				if variant == 0 {
					st := b.Agg(p, "Settings", &ir.Field{Name: "N", T: b.Leaf(p, "N")})
					m1, m2 = st, ir.Ptr(st)
				} else {
					m1, m2 = b.Leaf(p, "X"), b.Leaf(p, "Y")
				}
				lg, sv, app := b.Leaf(p, "Logger"), b.Leaf(p, "Server"), b.Leaf(p, "App")
				svParams := []*ir.Type{m2, ir.Ptr(lg)}
				if ob == 1 {
					svParams = []*ir.Type{ir.Ptr(lg), m2}
				}
				appParams := []*ir.Type{ir.Ptr(lg), ir.Ptr(sv)}
				if oa == 1 {
					appParams = []*ir.Type{ir.Ptr(sv), ir.Ptr(lg)}
				}
				inj := &ir.Injector{Name: "Init", Out: ir.Ptr(app), Items: []*ir.Item{
					ir.FuncItem(&ir.Func{Pkg: p, Name: "NewLogger", Params: []*ir.Type{m1}, Out: ir.Ptr(lg)}),
					ir.FuncItem(&ir.Func{Pkg: p, Name: "NewServer", Params: svParams, Out: ir.Ptr(sv)}),
					ir.FuncItem(&ir.Func{Pkg: p, Name: "NewApp", Params: appParams, Out: ir.Ptr(app)}),
				}}
				prog := &ir.Program{Root: p, Injectors: []*ir.Injector{inj}}
				id := fmt.Sprintf("C06/two-missing/variant=%d/app-order=%d/server-order=%d", variant, oa, ob)
				base := judgeProgramF(prog, true, map[string]bool{"wiring": true}, focus)
				missing := []ir.Reason{{Class: "missing", Subject: m1.Key()}, {Class: "missing", Subject: m2.Key()}}
				cs := &h.Case{ID: id, Files: ir.Render(prog, true), Drive: true, Judge: func(r *h.Result) []h.Violation {
					vs := base(r)
					if len(vs) > 0 || !r.Root().Failed {
						return vs
					}
					for _, m := range missing {
						if !matchReason(r.Root().Diags, m) {
							vs = append(vs, h.Violation{Symptom: "missing-type-not-named", Detail: fmt.Sprintf("two needed types have no source (%s and %s) but %s is not named by any diagnostic:\n%s", missing[0].Subject, missing[1].Subject, m.Subject, clip(strings.Join(r.Root().Diags, "\n"), 1200))})
						}
					}
					return vs
				}}
				if c.NoteProgram(cs.Files) {
					kinds.inc("model:missing")
					cases = append(cases, cs)
				}
			}
		}
	}
	results := c.JudgeAll(cases)
	// Family G: the same programs (every seventh, all of F) generated with -header_file: "generates
	// nothing" also when there is a header to write
	{
		var hdr []*h.Case
		for i, cs := range cases {
			if i%7 != 0 && !strings.HasPrefix(cs.ID, "C06/two-missing/") {
				continue
			}
			nc := *cs
			nc.ID = cs.ID + "/with-header"
			nc.Files = map[string]string{"hdr.txt": "// Header of the project.\n\n"}
			for p, cnt := range cs.Files {
				nc.Files[p] = cnt
			}
			hdr = append(hdr, &nc)
		}
		if len(hdr) > 0 {
			// every batch has a case directory c00000 holding hdr.txt
			c.R.ExtraGen = []string{"-header_file", "c00000/hdr.txt"}
			hres := c.JudgeAll(hdr)
			c.R.ExtraGen = nil
			cases = append(cases, hdr...)
			results = append(results, hres...)
			c.Coverage["with_header_file"] = len(hdr)
		}
	}
	stdCoverage(c, cases, results, "G: every seventh program again under -header_file (a rejected one must still write nothing); F: two types left without a source at once (both forms of a struct provider, two leaves), needed by sibling providers in every parameter order: each is named; E: struct providers selecting \"*\" over fields whose tags only resemble wire:\"-\" (json:\"-\", wire:\"x\", ...), with and without a source for the field; C: twin packages (same package name, same identifiers, different import paths) with either twin unprovided; D: two injectors over shared set objects where only the first one's wrapper set adds the source (binding, value, function, field, struct, interface value) the second one lacks, both declaration orders; A: every accepted base program (all DAGs on <=4 nodes, thorough 5, with every node reachable; node kind/type shape/placement deviations) with each single Build/NewSet item left out; B: near-miss substitutions (T vs *T both ways, implementation without binding, named vs underlying both ways, other named type, alias which must stay accepted) at every node of four shapes. Oracle: model verdict == wire verdict; a rejection names the missing type (or the unprovided concrete type of a binding) and writes nothing; accepted programs are compiled, run and trace-checked. Distinct = distinct rendered source.")
	c.Coverage["model_verdict_classes"] = kinds.summary()
	sampleCase(c, cases, results)
	if kinds["model:missing"] < 20 || kinds["model:accept"] < 5 {
		c.Internalf("vacuous: %v", kinds)
	}
}
