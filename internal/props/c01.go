package props

import (
	"fmt"
	"strings"

	"verif/internal/h"
	"verif/internal/ir"
)

func init() { register("C01", "model_checking", checkC01) }

// result type kinds: name, type text as seen from the root package (L. = lib qualifier), extra import
var c01Kinds = []struct{ name, typ, imp string }{
	{"bool", "bool", ""}, {"int", "int", ""}, {"string", "string", ""}, {"float64", "float64", ""}, {"complex128", "complex128", ""},
	{"named-int", "NInt", ""}, {"named-string", "NStr", ""}, {"named-struct", "S", ""}, {"ptr-struct", "*S", ""}, {"named-ptr", "PS", ""},
	{"slice", "[]S", ""}, {"array", "[2]S", ""}, {"map", "map[string]S", ""}, {"chan", "chan S", ""}, {"recv-chan", "<-chan S", ""}, {"func", "func(int) S", ""},
	{"named-func", "NFunc", ""}, {"named-iface", "Iface", ""}, {"any", "interface{}", ""}, {"anon-struct", "struct{ X int }", ""},
	{"anon-iface", "interface{ M() }", ""}, {"alias-named", "AliasS", ""}, {"alias-unnamed", "AliasSlice", ""},
	{"lib-named", "L.T", ""}, {"lib-ptr", "*L.T", ""}, {"lib-slice", "[]L.T", ""}, {"lib-map-key", "map[L.K]int", ""}, {"lib-func", "func(L.T) L.K", ""},
	{"generic", "G[int]", ""}, {"generic-lib", "G[L.T]", ""}, {"lib-generic", "L.G[string]", ""}, {"unsafe-pointer", "unsafe.Pointer", "unsafe"}, {"error", "error", ""},
	{"uintptr", "uintptr", ""}, {"byte-slice", "[]byte", ""}, {"ptr-ptr", "**S", ""}, {"named-array", "NArr", ""}, {"named-map", "NMap", ""}, {"named-chan", "NChan", ""},
}

const c01Defs = `package p

type NInt int
type NStr string
type S struct{ A int }
type PS *S
type NFunc func() S
type Iface interface{ M() }
type AliasS = S
type AliasSlice = []S
type G[T any] struct{ V T }
type NArr [2]int
type NMap map[string]int
type NChan chan int
type P struct{ N int }
type Q int
`

const c01Lib = `package lib

type T struct{ N int }
type K string
type G[T any] struct{ V T }
type U struct{ M int }
type V string
`

// shapes: bit 0 error, bit 1 cleanup
func resList(t string, shape int) string {
	parts := []string{t}
	if shape&2 != 0 {
		parts = append(parts, "func()")
	}
	if shape&1 != 0 {
		parts = append(parts, "error")
	}
	if len(parts) == 1 {
		return t
	}
	return "(" + strings.Join(parts, ", ") + ")"
}

var c01Params = []struct{ name, decl, types, second string }{
	{"none", "", "", ""},
	{"named", "a P, b Q", "P, Q", ""},
	{"blank", "_ P, _ Q", "P, Q", ""},
	{"unnamed", "P, Q", "P, Q", ""},
	{"variadic-named", "a P, rest ...Q", "P, ...Q", ""},
	{"variadic-blank", "_ P, _ ...Q", "P, ...Q", ""},
	{"lib-typed", "a L.U, k ...L.V", "L.U, ...L.V", ""},
	{"shadowing", "err P, cleanup Q", "P, Q", ""},
}

func c01KindCase(kind int, provShape, injShape, param int, provInLib bool) *h.Case {
	k := c01Kinds[kind]
	pm := c01Params[param]
	usesLib := strings.Contains(k.typ, "L.") || strings.Contains(pm.decl, "L.") || provInLib
	q := func(s string) string { return strings.ReplaceAll(s, "L.", "lib.") }
	typ := q(k.typ)
	var defs, wiresrc, drv strings.Builder
	imports := func(sb *strings.Builder, wire bool) {
		sb.WriteString("import (\n")
		if wire {
			sb.WriteString("\t\"github.com/google/wire\"\n")
		}
		if usesLib {
			sb.WriteString("\t\"{{ROOT}}/lib\"\n")
		}
		if k.imp != "" {
			fmt.Fprintf(sb, "\t%q\n", k.imp)
		}
		sb.WriteString(")\n\n")
	}
	// provider: in the root package, or in lib when the type is expressible there
	provRef := "ProvK"
	provSrc := func(pkgTyp string) string {
		ret := "z"
		if provShape&2 != 0 {
			ret += ", func() {}"
		}
		if provShape&1 != 0 {
			ret += ", nil"
		}
		return fmt.Sprintf("func ProvK() %s {\n\tvar z %s\n\treturn %s\n}\n", resList(pkgTyp, provShape), pkgTyp, ret)
	}
	files := map[string]string{}
	defs.WriteString(c01Defs)
	if provInLib {
		provRef = "lib.ProvK"
		libTyp := strings.ReplaceAll(k.typ, "L.", "")
		lib := c01Lib
		if k.imp != "" {
			lib = strings.Replace(lib, "package lib\n", "package lib\n\nimport \""+k.imp+"\"\n", 1)
		}
		files["lib/lib.go"] = lib + "\n" + provSrc(libTyp)
	} else {
		files["lib/lib.go"] = c01Lib
		var pf strings.Builder
		pf.WriteString("package p\n\n")
		if strings.Contains(k.typ, "L.") || k.imp != "" {
			pf.WriteString("import (\n")
			if strings.Contains(k.typ, "L.") {
				pf.WriteString("\t\"{{ROOT}}/lib\"\n")
			}
			if k.imp != "" {
				fmt.Fprintf(&pf, "\t%q\n", k.imp)
			}
			pf.WriteString(")\n\n")
		}
		pf.WriteString(provSrc(typ))
		files["prov.go"] = pf.String()
	}
	files["defs.go"] = defs.String()
	wiresrc.WriteString("//go:build wireinject\n// +build wireinject\n\npackage p\n\n")
	imports(&wiresrc, true)
	fmt.Fprintf(&wiresrc, "func Init(%s) %s {\n\tpanic(wire.Build(%s))\n}\n", q(pm.decl), resList(typ, injShape), provRef)
	files["wire.go"] = wiresrc.String()
	drv.WriteString("package p\n\n")
	needImp := strings.Contains(k.typ, "L.") || strings.Contains(pm.types, "L.") || k.imp != ""
	if needImp {
		drv.WriteString("import (\n")
		if strings.Contains(k.typ, "L.") || strings.Contains(pm.types, "L.") {
			drv.WriteString("\t\"{{ROOT}}/lib\"\n")
		}
		if k.imp != "" {
			fmt.Fprintf(&drv, "\t%q\n", k.imp)
		}
		drv.WriteString(")\n\n")
	}
	fmt.Fprintf(&drv, "// forces the generated Init to have exactly the template's signature\nvar _ func(%s) %s = Init\n", q(pm.types), resList(typ, injShape))
	files["driver.go"] = drv.String()
	id := fmt.Sprintf("C01/kind=%s/prov=%d/inj=%d/params=%s/provlib=%v", k.name, provShape, injShape, pm.name, provInLib)
	return &h.Case{ID: id, Files: files, Build: true, Judge: judgeC01(true)}
}

// judgeC01: wire reported success => the package compiles. mustAccept: the program is well-formed, a rejection is unexpected (reported as an internal inconsistency of the family, not as C01).
func judgeC01(mustAccept bool) func(r *h.Result) []h.Violation {
	return func(r *h.Result) []h.Violation {
		if r.Crashed {
			return []h.Violation{{Symptom: "crash", Detail: clip(r.Raw, 1500)}}
		}
		if r.TimedOut {
			return []h.Violation{{Symptom: "timeout", Detail: "wire did not terminate"}}
		}
		if r.LoadFailed {
			return []h.Violation{{Symptom: "harness-illtyped", Detail: clip(r.AllDiags(), 1000)}}
		}
		if r.Root().Failed {
			if mustAccept {
				return []h.Violation{{Symptom: "harness-unexpected-reject", Detail: clip(strings.Join(r.Root().Diags, "\n"), 800)}}
			}
			return nil
		}
		if !r.Root().Wrote {
			return []h.Violation{{Symptom: "no-output", Detail: "success reported but no wire_gen.go written"}}
		}
		if r.CompileErr != "" {
			return []h.Violation{{Symptom: "compile-error", Detail: "wire reported success but the package does not compile with wire_gen.go:\n" + clip(r.CompileErr, 1200) + "\n--- wire_gen.go ---\n" + clip(r.GenSrc[""], 2500)}}
		}
		if !r.Compiled {
			return []h.Violation{{Symptom: "harness-notcompiled", Detail: "accepted but not compiled"}}
		}
		return nil
	}
}

// accessibility family: a set declared in lib refers to things the injector's package cannot name.
func c01AccessCases() []*h.Case {
	lib := `package lib

import "github.com/google/wire"

type S struct {
	A int
	b string
}

type hidden struct{ X int }

type Out struct{ N int }

func provideInt() int        { return 1 }
func ProvideString() string  { return "s" }
func UseHidden(h hidden) Out { return Out{N: h.X} }
func UseHiddenPtr(h *hidden) Out { return Out{N: h.X} }
func UseS(s S) Out           { return Out{N: s.A} }
func NewS() S                { return S{A: 1, b: "b"} }
func newOut() Out            { return Out{} }

type iface interface{ M() }
type Impl struct{}
func (Impl) M() {}
func NewImpl() Impl { return Impl{} }
func UseIface(i iface) Out { return Out{} }

var (
	SetUnexportedProvider   = wire.NewSet(provideInt, wire.Struct(new(S), "A"), UseS)
	SetUnexportedResultFunc = wire.NewSet(newOut)
	SetHiddenStruct         = wire.NewSet(provideInt, wire.Struct(new(hidden), "*"), UseHidden)
	SetHiddenStructPtr      = wire.NewSet(provideInt, wire.Struct(new(hidden), "X"), UseHiddenPtr)
	SetStarUnexportedField  = wire.NewSet(provideInt, ProvideString, wire.Struct(new(S), "*"), UseS)
	SetNamedUnexportedField = wire.NewSet(ProvideString, wire.Struct(new(S), "b"), UseS)
	SetFieldsOfUnexported   = wire.NewSet(NewS, wire.FieldsOf(new(S), "b"))
	SetBindUnexportedIface  = wire.NewSet(NewImpl, wire.Bind(new(iface), new(Impl)), UseIface)
	SetAllExported          = wire.NewSet(ProvideString, NewS, UseS)
	SetValuePrivateKey      = wire.NewSet(wire.Value(S{A: 1, b: "x"}), UseS)
	SetValuePrivateSelector = wire.NewSet(wire.Value(SVar.b))
	SetValuePrivateVar      = wire.NewSet(wire.Value(hiddenVar))
	SetValueExportedOnly    = wire.NewSet(wire.Value(S{A: 2}), UseS)
)

var SVar = S{A: 3, b: "sel"}

var hiddenVar = "hv"
`
	type ac struct{ name, set, result string }
	var out []*h.Case
	for _, a := range []ac{
		{"unexported-provider", "lib.SetUnexportedProvider", "lib.Out"},
		{"unexported-provider-of-result", "lib.SetUnexportedResultFunc", "lib.Out"},
		{"unexported-struct-type", "lib.SetHiddenStruct", "lib.Out"},
		{"unexported-struct-type-ptr", "lib.SetHiddenStructPtr", "lib.Out"},
		{"star-with-unexported-field", "lib.SetStarUnexportedField", "lib.Out"},
		{"named-unexported-field", "lib.SetNamedUnexportedField", "lib.Out"},
		{"fieldsof-unexported-field", "lib.SetFieldsOfUnexported", "string"},
		{"bind-unexported-interface", "lib.SetBindUnexportedIface", "lib.Out"},
		{"all-exported", "lib.SetAllExported", "lib.Out"},
		{"value-unexported-field-key", "lib.SetValuePrivateKey", "lib.Out"},
		{"value-unexported-field-selector", "lib.SetValuePrivateSelector", "string"},
		{"value-unexported-var", "lib.SetValuePrivateVar", "string"},
		{"value-exported-only", "lib.SetValueExportedOnly", "lib.Out"},
	} {
		files := map[string]string{
			"lib/lib.go": lib,
			"wire.go":    "//go:build wireinject\n// +build wireinject\n\npackage p\n\nimport (\n\t\"github.com/google/wire\"\n\t\"{{ROOT}}/lib\"\n)\n\nfunc Init() " + a.result + " {\n\tpanic(wire.Build(" + a.set + "))\n}\n",
			"driver.go":  "package p\n\nimport \"{{ROOT}}/lib\"\n\nvar _ func() " + a.result + " = Init\n\nvar _ lib.Out\n",
		}
		out = append(out, &h.Case{ID: "C01/access/" + a.name, Files: files, Build: true, Judge: judgeC01(false)})
	}
	return out
}

// layout family (IR): imports needed only by one part of the output, several injectors in several files, doc comments.
func c01LayoutCases() []*h.Case {
	var out []*h.Case
	for variant := 0; variant < 12; variant++ {
		b := ir.NewBuilder()
		p := b.Root
		la := &ir.Pkg{Name: "cfg", Rel: "alpha/cfg"}
		lb := &ir.Pkg{Name: "cfg", Rel: "beta/cfg"}
		ta, tb := b.Leaf(la, "T"), b.Leaf(lb, "T")
		r := b.Leaf(p, "R")
		var injs []*ir.Injector
		switch variant {
		case 0: // import needed only by a parameter type
			injs = []*ir.Injector{{Name: "Init", Params: []ir.Param{{Name: "unused", T: ta}}, Out: r, Items: []*ir.Item{ir.FuncItem(&ir.Func{Pkg: p, Name: "PR", Out: r})}}}
		case 1: // import needed only by the zero value on an error path
			agg := b.Agg(la, "Z", &ir.Field{Name: "F", T: ta})
			injs = []*ir.Injector{{Name: "Init", Out: agg, Err: true, Items: []*ir.Item{ir.FuncItem(&ir.Func{Pkg: p, Name: "PZ", Out: agg, Err: true})}}}
		case 2: // import needed only by a value expression
			injs = []*ir.Injector{{Name: "Init", Out: ta, Items: []*ir.Item{ir.ValueItem(ta, 9001)}}}
		case 3: // two imported packages with the same name, both used
			injs = []*ir.Injector{{Name: "Init", Out: r, Items: []*ir.Item{ir.FuncItem(&ir.Func{Pkg: la, Name: "New", Out: ta}), ir.FuncItem(&ir.Func{Pkg: lb, Name: "New", Out: tb}), ir.FuncItem(&ir.Func{Pkg: p, Name: "PR", Params: []*ir.Type{ta, tb}, Out: r})}}}
		case 4: // three injectors in two files, with doc comments
			newA := &ir.Func{Pkg: la, Name: "New", Out: ta}
			mk := func(name, file, doc string) *ir.Injector {
				return &ir.Injector{Name: name, File: file, Doc: doc, Out: ta, Items: []*ir.Item{ir.FuncItem(newA)}}
			}
			injs = []*ir.Injector{mk("InitA", "wire.go", "// InitA builds a T.\n// Second line."), mk("InitB", "wire.go", ""), mk("InitC", "wire_more.go", "/* block doc */")}
		case 5: // same-named packages, one only in a parameter and one only in the result
			injs = []*ir.Injector{{Name: "Init", Params: []ir.Param{{Name: "cfg", T: ta}}, Out: tb, Items: []*ir.Item{ir.FuncItem(&ir.Func{Pkg: lb, Name: "New", Params: []*ir.Type{ta}, Out: tb})}}}
		case 10: // two injectors, each with its own value of one and the same type (and one shared)
			v := b.Leaf(p, "Config")
			shared := ir.ValueItem(r, 9003)
			mk := func(name string, id int) *ir.Injector {
				out := b.Leaf(p, "Out"+name)
				return &ir.Injector{Name: name, Out: out, Items: []*ir.Item{ir.ValueItem(v, id), shared, ir.FuncItem(&ir.Func{Pkg: p, Name: "P" + name, Params: []*ir.Type{v, r}, Out: out})}}
			}
			injs = []*ir.Injector{mk("InitServer", 9001), mk("InitClient", 9002)}
		case 11: // the first injector file has one injector, the second two injectors and helper declarations
			newA := &ir.Func{Pkg: la, Name: "New", Out: ta}
			mk := func(name, file, after string) *ir.Injector {
				return &ir.Injector{Name: name, File: file, After: after, Out: ta, Items: []*ir.Item{ir.FuncItem(newA)}}
			}
			injs = []*ir.Injector{mk("InitA", "wire.go", ""), mk("InitB", "wire_more.go", "type options struct{ N int }\n\nfunc defaultOptions() options { return options{N: 1} }"), mk("InitC", "wire_more.go", "var lateHelper = defaultOptions().N")}
		case 7, 8, 9: // blank / unnamed / mixed parameters that providers consume
			u := b.Leaf(p, "U")
			names := [][2]string{{"_", "_"}, {"-", "-"}, {"_", "named"}}[variant-7]
			injs = []*ir.Injector{{Name: "Init", Params: []ir.Param{{Name: names[0], T: ta}, {Name: names[1], T: u}}, Out: r,
				Items: []*ir.Item{ir.FuncItem(&ir.Func{Pkg: p, Name: "PR", Params: []*ir.Type{u, ta}, Out: r})}}}
		case 6: // variadic injector with a lib-typed variadic parameter, unnamed
			r2 := b.Leaf(la, "R2")
			injs = []*ir.Injector{{Name: "Init", Params: []ir.Param{{Name: "-", T: r2}, {Name: "-", T: ir.Slice(ta)}}, Variadic: true, Out: tb, Items: []*ir.Item{ir.FuncItem(&ir.Func{Pkg: lb, Name: "New", Params: []*ir.Type{ir.Slice(ta), r2}, Out: tb})}}}
		}
		prog := &ir.Program{Root: p, Injectors: injs}
		cs := caseFromProgram(fmt.Sprintf("C01/layout/%d", variant), prog, true, nil)
		out = append(out, cs)
	}
	return out
}

// aliased imports used only by copied code: the generated file must import them under a name its code uses.
func c01AliasCases() []*h.Case {
	lib := "package lib\n\nvar Num = 5\n\ntype T struct{ N int }\n\nfunc Twice(x int) int { return 2 * x }\n"
	hdr := "//go:build wireinject\n// +build wireinject\n\npackage p\n\nimport (\n\txl \"{{ROOT}}/lib\"\n\t\"github.com/google/wire\"\n)\n\n"
	bodies := map[string]string{
		"copied-type-alias": "func Init() *Logger {\n\tpanic(wire.Build(NewLogger))\n}\n\n// Logger is an alias: code outside this file relies on the two names denoting one type.\ntype Logger = StdLogger\n\nvar _ = xl.Num\n",
		"value-only":          "func Init() int {\n\tpanic(wire.Build(wire.Value(xl.Num)))\n}\n",
		"copied-decl-only":    "func Init() int {\n\tpanic(wire.Build(provide))\n}\n\nfunc provide() int { return xl.Twice(xl.Num) }\n",
		"copied-var-only":     "func Init() int {\n\tpanic(wire.Build(wire.Value(7)))\n}\n\nvar copied = xl.T{N: xl.Num}\n",
		"value-then-signature": "func Init() int {\n\tpanic(wire.Build(wire.Value(xl.Num)))\n}\n\nfunc Init2() xl.T {\n\tpanic(wire.Build(wire.Value(xl.T{N: 1})))\n}\n",
	}
	var out []*h.Case
	for name, body := range bodies {
		files := map[string]string{"lib/lib.go": lib, "wire.go": hdr + body, "driver.go": "package p\n\nvar _ func() int = Init\n"}
		if name == "copied-type-alias" {
			files["driver.go"] = "package p\n\ntype StdLogger struct{ Prefix string }\n\nfunc (l *StdLogger) Log() string { return l.Prefix }\n\nfunc NewLogger() *StdLogger { return &StdLogger{Prefix: \"x\"} }\n\nvar _ func() *Logger = Init\n\nvar _ = (*Logger).Log\n"
		}
		out = append(out, &h.Case{ID: "C01/aliased-import/" + name, Files: files, Build: true, Judge: judgeC01(true)})
	}
	return out
}

// injectors written as methods: the generated package must have the METHOD (callers written against the template
// compile unchanged under the default tags)
func c01MethodCases() []*h.Case {
	hdr := "//go:build wireinject\n// +build wireinject\n\npackage p\n\nimport \"github.com/google/wire\"\n\n"
	defs := "package p\n\ntype App struct{}\n\ntype Config struct{}\n\ntype Server struct{ C Config }\n\nfunc NewServer(c Config) (*Server, error) { return &Server{c}, nil }\n\nfunc NewConfig() Config { return Config{} }\n\n"
	var out []*h.Case
	for name, v := range map[string][3]string{
		"value-receiver":   {"func (App) Make() (*Server, error) {\n\tpanic(wire.Build(NewServer, NewConfig))\n}\n", "var _ func(App) (*Server, error) = App.Make\n", ""},
		"pointer-receiver": {"func (a *App) Make() (*Server, error) {\n\tpanic(wire.Build(NewServer, NewConfig))\n}\n", "var _ func(*App) (*Server, error) = (*App).Make\n", ""},
		"method-with-parameter": {"func (a *App) Make(c Config) (*Server, error) {\n\tpanic(wire.Build(NewServer))\n}\n", "var _ func(*App, Config) (*Server, error) = (*App).Make\n", ""},
		"method-and-function-of-one-name": {"func (App) Make() (*Server, error) {\n\tpanic(wire.Build(NewServer, NewConfig))\n}\n\nfunc Make() Config {\n\tpanic(wire.Build(NewConfig))\n}\n", "var _ func(App) (*Server, error) = App.Make\n\nvar _ func() Config = Make\n", ""},
	} {
		files := map[string]string{"defs.go": defs, "wire.go": hdr + v[0], "driver.go": "package p\n\n" + v[1]}
		out = append(out, &h.Case{ID: "C01/method-injector/" + name, Files: files, Build: true, Judge: judgeC01(true)})
	}
	return out
}

// c01SharedTypeCases: two packages of one invocation, each with fallible injectors returning the same struct / array /
// named-func types by value, which the declaring package and the importing package spell differently (T vs lib.T vs an
// aliased import): every generated file must compile in its own package.
func c01SharedTypeCases() []*h.Case {
	var out []*h.Case
	for variant := 0; variant < 2; variant++ {
		q, imp := "lib.", "\t\"{{ROOT}}/lib\"\n"
		if variant == 1 {
			q, imp = "store.", "\tstore \"{{ROOT}}/lib\"\n"
		}
		files := map[string]string{
			"lib/defs.go": "package lib\n\ntype T struct{ N int }\n\ntype Arr [2]int\n\ntype Gen[X any] struct{ V X }\n\nfunc NewT() (T, error) { return T{1}, nil }\n\nfunc NewArr() (Arr, func(), error) { return Arr{}, func() {}, nil }\n\nfunc NewGen() (Gen[T], error) { return Gen[T]{}, nil }\n",
			"lib/wire.go": "//go:build wireinject\n// +build wireinject\n\npackage lib\n\nimport \"github.com/google/wire\"\n\nfunc InitT() (T, error) {\n\tpanic(wire.Build(NewT))\n}\n\nfunc InitArr() (Arr, func(), error) {\n\tpanic(wire.Build(NewArr))\n}\n\nfunc InitGen() (Gen[T], error) {\n\tpanic(wire.Build(NewGen))\n}\n",
			"wire.go": "//go:build wireinject\n// +build wireinject\n\npackage p\n\nimport (\n\t\"github.com/google/wire\"\n" + imp + ")\n\nfunc InitT() (" + q + "T, error) {\n\tpanic(wire.Build(" + q + "NewT))\n}\n\nfunc InitArr() (" + q + "Arr, func(), error) {\n\tpanic(wire.Build(" + q + "NewArr))\n}\n\nfunc InitGen() (" + q + "Gen[" + q + "T], error) {\n\tpanic(wire.Build(" + q + "NewGen))\n}\n",
			"driver.go": "package p\n\nimport " + strings.TrimSpace(strings.TrimPrefix(imp, "\t")) + "\n\nvar _ func() (" + q + "T, error) = InitT\n",
		}
		out = append(out, &h.Case{ID: fmt.Sprintf("C01/shared-result-types-across-packages/variant=%d", variant), Files: files, Build: true, ExtraBuild: []string{"lib"}, Judge: judgeC01(true)})
	}
	return out
}

func checkC01(c *h.Check) {
	thorough := c.Tier == "thorough"
	var cases []*h.Case
	add := func(cs *h.Case) {
		if c.NoteProgram(cs.Files) {
			cases = append(cases, cs)
		}
	}
	for k := range c01Kinds {
		for ps := 0; ps < 4; ps++ {
			for is := 0; is < 4; is++ {
				if ps&^is != 0 {
					continue // the injector must be able to return what the provider returns
				}
				for pm := range c01Params {
					if !thorough && pm >= 4 && !(ps == 3 && is == 3) && !(ps == 0 && is == 0) {
						continue // quick: the rarer parameter forms with the plain and the full shape only
					}
					add(c01KindCase(k, ps, is, pm, false))
				}
				// the provider declared in lib (only when the type can be written there)
				if !strings.Contains(c01Kinds[k].typ, "S") && !strings.Contains(c01Kinds[k].typ, "N") && !strings.Contains(c01Kinds[k].typ, "Iface") && !strings.Contains(c01Kinds[k].typ, "G[int]") && !strings.Contains(c01Kinds[k].typ, "G[L.") && !strings.Contains(c01Kinds[k].typ, "Alias") {
					add(c01KindCase(k, ps, is, 1, true))
				}
			}
		}
	}
	for _, cs := range c01AccessCases() {
		add(cs)
	}
	for _, cs := range c01LayoutCases() {
		add(cs)
	}
	for _, cs := range c01MethodCases() {
		add(cs)
	}
	for _, cs := range c01AliasCases() {
		add(cs)
	}
	for _, cs := range c01SharedTypeCases() {
		add(cs)
	}
	results := c.JudgeAll(cases)
	acc, rej, comp := 0, 0, 0
	for _, r := range results {
		if r == nil || r.NotRun {
			continue
		}
		if r.Root().Failed {
			rej++
		} else {
			acc++
		}
		if r.Compiled {
			comp++
		}
	}
	c.Coverage["evaluations"] = len(cases)
	c.Coverage["distinct_nontrivial"] = c.DistinctPrograms()
	c.Coverage["states"] = c.DistinctPrograms()
	c.Coverage["transitions"] = len(cases) + comp
	c.Coverage["traces_validated_against_impl"] = comp
	c.Coverage["accepted"] = acc
	c.Coverage["rejected"] = rej
	c.Coverage["compiled_with_wire_gen"] = comp
	c.Coverage["rule"] = fmt.Sprintf("%d result type kinds (every basic kind, named and unnamed composites, aliases, generic instances incl. with lib type arguments, types of another package in value/pointer/slice/map-key/func positions, unsafe.Pointer, error) x provider shape (4) x injector shape (>= provider's needs) x %d parameter forms (none, named, blank, unnamed, variadic named/blank, lib-typed variadic, parameters named err/cleanup) x provider in the injector's package or another one; accessibility family: sets declared in another package that list an unexported provider, an unexported struct type, \"*\" or a name over unexported fields, FieldsOf an unexported field, a binding to an unexported interface; layout family: import needed only by a parameter type / zero value / value expression, same-named packages, three injectors in two files with doc comments, unnamed variadic parameters; imports under a user-chosen alias used only by a value expression or only by a copied declaration; injectors written as methods (value and pointer receivers, with a parameter, next to a function of the same name). Oracle: whenever wire reports success, wire_gen.go is written and the package compiles under the default tags together with a typed function-variable assignment per injector (same name, parameter types incl. variadic, result types). (Every other property's accepted programs are compiled too; a failure there is reported under that property.) Distinct = distinct rendered source.", len(c01Kinds), len(c01Params))
	if len(cases) > 0 && len(results) == len(cases) {
		i := len(cases) / 2
		c.Samples = append(c.Samples, map[string]interface{}{"case": cases[i].ID, "wire.go": cases[i].Files["wire.go"], "driver.go": cases[i].Files["driver.go"], "wire_gen.go": results[i].GenSrc[""]})
	}
	if c.Only == "" && comp < 500 {
		c.Internalf("vacuous: only %d programs compiled", comp)
	}
}
