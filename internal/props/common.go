// Package props holds one file per property: the case families (alphabets,
// bounds) and the oracles.
package props

import (
	"fmt"
	"sort"
	"strings"

	"verif/internal/h"
	"verif/internal/ir"
)

// Registry maps property ids to their checks.
var Registry = map[string]func(c *h.Check){}

// Levels is the evidence level per property.
var Levels = map[string]string{}

func register(id, level string, f func(c *h.Check)) {
	Registry[id] = f
	Levels[id] = level
}

func isIdentChar(b byte) bool {
	return b == '_' || (b >= '0' && b <= '9') || (b >= 'a' && b <= 'z') || (b >= 'A' && b <= 'Z') || b >= 0x80
}

// containsType reports whether text mentions exactly the type whose string is key
// (not a longer name, not its pointer/slice form).
func containsType(text, key string) bool {
	if key == "" {
		return true
	}
	for i := 0; ; {
		j := strings.Index(text[i:], key)
		if j < 0 {
			return false
		}
		j += i
		end := j + len(key)
		okBefore := j == 0 || !(isIdentChar(text[j-1]) || text[j-1] == '*' || text[j-1] == ']' || text[j-1] == '/' || text[j-1] == '.' || text[j-1] == '{' && false)
		okAfter := end == len(text) || !isIdentChar(text[end])
		if okBefore && okAfter {
			return true
		}
		i = j + 1
	}
}

// classKeywords lists phrasings under which a diagnostic still counts as one of the class the property names
// (the properties fix the class of the error, not wire's wording); nil = any wording.
func classKeywords(class string) []string {
	switch class {
	case "conflict":
		return []string{"multiple bindings", "multiple providers", "multiple sources", "duplicate", "already provided", "already bound", "conflict", "ambiguous", "more than one", "provided twice", "bound twice"}
	case "cycle":
		return []string{"cycle", "cyclic", "circular", "depends on itself"}
	case "missing":
		return []string{"no provider", "not provided", "missing", "cannot find", "can't find", "unsatisfied", "no source", "nothing provides", "unable to find"}
	case "unused":
		return []string{"unused", "not used", "never used", "not needed", "superfluous", "does not contribute", "unnecessary"}
	}
	return nil
}

func hasKeyword(d string, kws []string) bool {
	if kws == nil {
		return true
	}
	ld := strings.ToLower(d)
	for _, k := range kws {
		if strings.Contains(ld, k) {
			return true
		}
	}
	return false
}

// matchReason reports whether some diagnostic matches the reason.
func matchReason(diags []string, r ir.Reason) bool {
	kws := classKeywords(r.Class)
	for _, d := range diags {
		if !hasKeyword(d, kws) {
			continue
		}
		switch r.Class {
		case "unused", "cycle", "bad-field", "bad-bind", "bad-ifacevalue", "bad-value", "bad-sig":
			return true
		default:
			if containsType(d, r.Subject) {
				return true
			}
		}
	}
	return false
}

// judgeVerdict is the generic accept/reject oracle: the model's verdict must be
// wire's verdict; a rejection must carry a diagnostic matching one of the
// model's reasons and must not produce output.
func judgeVerdict(r *h.Result, reasons []ir.Reason) []h.Violation {
	var vs []h.Violation
	if r.Crashed {
		return []h.Violation{{Symptom: "crash", Detail: "wire crashed:\n" + clip(r.Raw, 1500)}}
	}
	if r.TimedOut {
		return []h.Violation{{Symptom: "timeout", Detail: "wire did not terminate within the cap"}}
	}
	if r.LoadFailed {
		return []h.Violation{{Symptom: "harness-illtyped", Detail: "rendered program does not type-check:\n" + clip(r.AllDiags(), 1500)}}
	}
	root := r.Root()
	if len(reasons) == 0 {
		if root.Failed {
			vs = append(vs, h.Violation{Symptom: "spurious-reject", Detail: "well-formed program rejected:\n" + clip(strings.Join(root.Diags, "\n"), 1500)})
		} else if !root.Wrote {
			vs = append(vs, h.Violation{Symptom: "no-output", Detail: "wire reported neither success nor failure for the package"})
		}
		return vs
	}
	var rs []string
	for _, x := range reasons {
		rs = append(rs, x.String())
	}
	if !root.Failed {
		vs = append(vs, h.Violation{Symptom: "accepted:" + reasons[0].Class, Detail: "ill-formed program accepted; model reasons: " + strings.Join(rs, ", ")})
		return vs
	}
	if _, wrote := r.GenSrc[""]; wrote || root.Wrote {
		vs = append(vs, h.Violation{Symptom: "output-on-failure", Detail: "wire_gen.go written although generation failed"})
	}
	ok := false
	for _, x := range reasons {
		if matchReason(root.Diags, x) {
			ok = true
		}
	}
	if !ok {
		vs = append(vs, h.Violation{Symptom: "wrong-diagnostic:" + reasons[0].Class, Detail: fmt.Sprintf("rejected, but no diagnostic matches the model's reasons %s:\n%s", strings.Join(rs, ", "), clip(strings.Join(root.Diags, "\n"), 1500))})
	}
	return vs
}

func clip(s string, n int) string {
	if len(s) > n {
		return s[:n] + "…"
	}
	return s
}

// judgeProgram is the full oracle for an IR program: verdict per the model, and
// for accepted programs compile + trace conformance of every scenario.
// classes restricts which problem classes are reported (nil = all).
func judgeProgram(prog *ir.Program, wantTrace bool, classes map[string]bool) func(r *h.Result) []h.Violation {
	return judgeProgramF(prog, wantTrace, classes, nil)
}

// judgeProgramF is judgeProgram with a filter that narrows the model's reasons to the
// classes the property under check speaks about (when any of them applies).
func judgeProgramF(prog *ir.Program, wantTrace bool, classes map[string]bool, focus map[string]bool) func(r *h.Result) []h.Violation {
	m := ir.NewModel()
	wirings := map[string]*ir.Wiring{}
	var reasons []ir.Reason
	for _, inj := range prog.Injectors {
		w := m.Solve(inj)
		wirings[inj.Name] = w
		reasons = append(reasons, w.Reasons...)
	}
	if focus != nil {
		var f []ir.Reason
		for _, r := range reasons {
			if focus[r.Class] {
				f = append(f, r)
			}
		}
		if len(f) > 0 {
			reasons = f
		}
	}
	return func(r *h.Result) []h.Violation {
		vs := judgeVerdict(r, reasons)
		if len(vs) > 0 || len(reasons) > 0 {
			return vs
		}
		if !wantTrace {
			return nil
		}
		if r.CompileErr != "" {
			return []h.Violation{{Symptom: "compile-error", Detail: "generated package does not compile:\n" + clip(r.CompileErr, 1500) + "\n--- wire_gen.go ---\n" + clip(r.GenSrc[""], 3000)}}
		}
		if !r.Compiled || !r.Ran {
			return []h.Violation{{Symptom: "harness-notrun", Detail: "case was accepted but not compiled/run"}}
		}
		if r.Panicked {
			return []h.Violation{{Symptom: "generated-code-panic", Detail: "generated injector panicked\n" + strings.Join(r.Trace, "\n")}}
		}
		ps, _ := ir.CheckCase(wirings, r.Trace)
		byClass := map[string][]string{}
		for _, p := range ps {
			if classes != nil && !classes[p.Class] && p.Class != "harness" {
				continue
			}
			byClass[p.Class] = append(byClass[p.Class], p.Msg)
		}
		var cls []string
		for c := range byClass {
			cls = append(cls, c)
		}
		sort.Strings(cls)
		for _, c := range cls {
			msgs := byClass[c]
			if len(msgs) > 6 {
				msgs = append(msgs[:6], fmt.Sprintf("… %d more", len(byClass[c])-6))
			}
			vs = append(vs, h.Violation{Symptom: c, Detail: strings.Join(msgs, "\n") + "\n--- wire_gen.go ---\n" + clip(r.GenSrc[""], 3000)})
		}
		return vs
	}
}

// caseFromProgram renders an IR program into a runnable case.
func caseFromProgram(id string, prog *ir.Program, drive bool, classes map[string]bool) *h.Case {
	return &h.Case{ID: id, Files: ir.Render(prog, drive), Drive: drive, Judge: judgeProgram(prog, drive, classes), Meta: prog}
}

// tally is a small helper for anti-vacuity counters.
type tally map[string]int

func (t tally) inc(k string) { t[k]++ }

func (t tally) summary() map[string]int { return map[string]int(t) }

// withTwinRoot returns a variant of the case in which the root package exists twice: the second copy lives in the
// sub-directory "twin" and imports the very same other packages (so both roots share the provider-set objects those
// packages declare) and both are processed by one wire invocation. Whatever the original judge demands of the root
// still holds; in addition the twin must get the same verdict, the same diagnostics and the same generated file:
// nothing may leak from one package of an invocation to the next.
func withTwinRoot(cs *h.Case) *h.Case {
	files := map[string]string{}
	for p, c := range cs.Files {
		files[p] = c
		if !strings.Contains(p, "/") && strings.HasSuffix(p, ".go") {
			files["twin/"+p] = c
		}
	}
	nc := *cs
	nc.Files = files
	nc.ID = cs.ID + "/twin-root"
	nc.ExtraBuild = append(append([]string{}, cs.ExtraBuild...), "twin")
	orig := cs.Judge
	nc.Judge = func(r *h.Result) []h.Violation {
		vs := orig(r)
		if r.Crashed || r.TimedOut || r.LoadFailed {
			return vs
		}
		a, b := r.Pkgs[""], r.Pkgs["twin"]
		if a == nil {
			a = &h.PkgResult{}
		}
		if b == nil {
			b = &h.PkgResult{}
		}
		norm := func(ds []string) string {
			s := strings.Join(ds, "\n")
			s = strings.ReplaceAll(s, "{{ROOT}}/twin", "{{ROOT}}")
			return strings.ReplaceAll(s, "twin/", "")
		}
		switch {
		case a.Failed != b.Failed || a.Wrote != b.Wrote:
			vs = append(vs, h.Violation{Symptom: "twin-verdict-differs", Detail: fmt.Sprintf("two identical packages processed by one invocation get different verdicts: first failed=%v wrote=%v, second failed=%v wrote=%v\n--- first ---\n%s\n--- second ---\n%s", a.Failed, a.Wrote, b.Failed, b.Wrote, clip(norm(a.Diags), 800), clip(norm(b.Diags), 800))})
		case norm(a.Diags) != norm(b.Diags):
			vs = append(vs, h.Violation{Symptom: "twin-diagnostics-differ", Detail: fmt.Sprintf("two identical packages processed by one invocation get different diagnostics:\n--- first ---\n%s\n--- second ---\n%s", clip(norm(a.Diags), 800), clip(norm(b.Diags), 800))})
		case r.GenSrc[""] != r.GenSrc["twin"]:
			vs = append(vs, h.Violation{Symptom: "twin-output-differs", Detail: "two identical packages processed by one invocation get different wire_gen.go:\n--- first ---\n" + clip(r.GenSrc[""], 1500) + "\n--- second ---\n" + clip(r.GenSrc["twin"], 1500)})
		}
		return vs
	}
	return &nc
}
