package props

import (
	"fmt"

	"verif/internal/explore"
	"verif/internal/h"
	"verif/internal/ir"
)

func init() {
	register("C03", "fault_enumeration", checkC03)
	register("C04", "model_checking", checkC04)
}

// pollutions: package-level declarations of the user that collide with the local names wire invents.
var pollutions = []string{
	"",
	"func cleanup() {}",
	"var cleanup2 = 0",
	"var err error",
	"var err2 = 0",
	"var err error\n\nfunc cleanup() {}\n\nvar cleanup2, cleanup3 = 1, 2",
}

type specCase struct {
	id   string
	spec *GraphSpec
}

// faultSpecs enumerates DAG shapes x provider shapes (plain, err, cleanup, cleanup+err per node)
// x result kind x injector shape.
func faultSpecs(thorough bool, prefix string) ([]specCase, explore.Stats) {
	var out []specCase
	maxN := 3
	if thorough {
		maxN = 4
	}
	st := explore.Run(-1, func(x *explore.Ctx) {
		n := 1 + x.Choose("n", maxN)
		x.Choose("dag", 1<<uint(dagEdgeBits(n)))
		allFull := true
		for i := 0; i < n; i++ {
			if x.Choose(fmt.Sprintf("shape%d", i), 4) != 3 {
				allFull = false
			}
		}
		// identifiers of the user's package that collide with the names wire invents
		if n <= 2 || allFull {
			x.Choose("pollute", len(pollutions))
		}
		// every provider takes its last dependency as a variadic parameter (that dependency is slice-typed)
		if n >= 2 {
			x.Choose("variadic", 2)
		}
		// result kind and injector shape: full product for small graphs only
		small := n <= 2 || (thorough && n <= 3)
		if small {
			x.Choose("rkind", 5)
			x.Choose("more", 2)
		}
	}, func(x *explore.Ctx) {
		ch := x.Map()
		n := 1 + ch["n"]
		g := &GraphSpec{N: n, Adj: dagAdj(n, uint64(ch["dag"])), Nodes: make([]NodeSpec, n), Root: n - 1, InSet: true, Hist: 3}
		for i := 0; i < n; i++ {
			s := ch[fmt.Sprintf("shape%d", i)]
			g.Nodes[i].Err = s&1 != 0
			g.Nodes[i].Cleanup = s&2 != 0
		}
		// default result kind: pointer (rkind 0); others: leaf, int, iface, slice
		g.Nodes[n-1].TKind = []int{TPtr, TLeaf, TInt, TIface, TSlice}[ch["rkind"]]
		g.InjMore = ch["more"] == 1
		g.ExtraDecl = pollutions[ch["pollute"]]
		if ch["variadic"] == 1 {
			for i := 0; i < n; i++ {
				if k := len(g.Adj[i]); k > 0 {
					g.Nodes[g.Adj[i][k-1]].TKind = TSlice
					g.Nodes[i].Variadic = true
				}
			}
		}
		out = append(out, specCase{prefix + x.ID(), g})
	})
	return out, st
}

// cleanupSpecs: more cleanups (3-5), sibling branches, cleanups mixed with struct/field/value/binding steps.
func cleanupSpecs(thorough bool) []specCase {
	var out []specCase
	type shape struct {
		name string
		n    int
		adj  [][]int
	}
	shapes := []shape{
		{"chain4", 4, [][]int{{}, {0}, {1}, {2}}},
		{"chain5", 5, [][]int{{}, {0}, {1}, {2}, {3}}},
		{"diamond4", 4, [][]int{{}, {0}, {0}, {1, 2}}},
		{"fanin4", 4, [][]int{{}, {}, {}, {0, 1, 2}}},
		{"fanin5", 5, [][]int{{}, {}, {}, {}, {0, 1, 2, 3}}},
		{"ladder5", 5, [][]int{{}, {0}, {0}, {1, 2}, {1, 2, 3}}},
		{"vee5", 5, [][]int{{}, {0}, {}, {2}, {1, 3}}},
		{"chain11", 11, chainAdj(11)},
		{"fanin12", 12, faninAdj(12)},
	}
	kinds := []int{NFunc, NStruct, NStructV, NField, NPtrField, NBound, NValue, NParam}
	for _, sh := range shapes {
		// all-cleanup baseline and every single node re-kinded
		for dev := -1; dev < sh.n; dev++ {
			if sh.n > 6 && dev > 0 && dev != sh.n/2 && dev != sh.n-1 {
				continue
			}
			for _, k := range kinds {
				if dev < 0 && k != NFunc {
					continue
				}
				if dev >= 0 && k == NFunc {
					continue
				}
				if dev >= 0 && (k == NValue || k == NParam) && len(sh.adj[dev]) > 0 {
					continue // leaves only
				}
				for errMask := 0; errMask < 2; errMask++ {
					g := &GraphSpec{N: sh.n, Adj: sh.adj, Nodes: make([]NodeSpec, sh.n), Root: sh.n - 1, InSet: false, Hist: 0}
					for i := range g.Nodes {
						g.Nodes[i].Cleanup = true
						g.Nodes[i].Err = errMask == 1 && i%2 == 1
					}
					if dev >= 0 {
						g.Nodes[dev].Kind = k
						if k == NStruct || k == NStructV || k == NValue || k == NParam {
							g.Nodes[dev].Cleanup, g.Nodes[dev].Err = false, false
						}
					}
					g.Nodes[sh.n-1].TKind = TPtr
					if dev == sh.n-1 {
						g.Nodes[sh.n-1].TKind = TLeaf
					}
					id := fmt.Sprintf("C04/mixed/%s/dev=%d/kind=%d/err=%d", sh.name, dev, k, errMask)
					out = append(out, specCase{id, g})
				}
			}
		}
		// cleanup subsets: every subset of nodes returns a cleanup (others plain)
		if (thorough && sh.n <= 6) || sh.n <= 4 {
			for m := 0; m < 1<<uint(sh.n); m++ {
				g := &GraphSpec{N: sh.n, Adj: sh.adj, Nodes: make([]NodeSpec, sh.n), Root: sh.n - 1, InSet: false}
				for i := range g.Nodes {
					g.Nodes[i].Cleanup = m&(1<<uint(i)) != 0
				}
				out = append(out, specCase{fmt.Sprintf("C04/subset/%s/cleanups=%d", sh.name, m), g})
			}
		}
	}
	return out
}

func chainAdj(n int) [][]int {
	adj := make([][]int, n)
	for i := 1; i < n; i++ {
		adj[i] = []int{i - 1}
	}
	return adj
}

func faninAdj(n int) [][]int {
	adj := make([][]int, n)
	for i := 0; i+1 < n; i++ {
		adj[n-1] = append(adj[n-1], i)
	}
	return adj
}

func runSpecs(c *h.Check, specs []specCase, classes map[string]bool) (cases []*h.Case, results []*h.Result) {
	withLib := 0
	for _, sc := range specs {
		prog, _ := sc.spec.Build()
		cs := caseFromProgram(sc.id, prog, true, classes)
		if c.NoteProgram(cs.Files) {
			cases = append(cases, cs)
		}
		// every seventh program that has a package besides the root: the root package twice in one invocation,
		// both copies using the same objects of the other package; nothing may differ between the two
		if _, ok := cs.Files["lib/defs.go"]; ok {
			withLib++
			if withLib%7 == 0 {
				tw := withTwinRoot(caseFromProgram(sc.id, prog, true, classes))
				if c.NoteProgram(tw.Files) {
					cases = append(cases, tw)
				}
			}
		}
	}
	results = c.JudgeAll(cases)
	return
}

// traceStats counts distinct observable behaviours for the anti-vacuity counters.
func traceStats(results []*h.Result) (accepted, rejected, scen int, distinctTraces int, failScen int) {
	seen := map[string]bool{}
	for _, r := range results {
		if r == nil || r.NotRun {
			continue
		}
		if r.Root().Failed {
			rejected++
			continue
		}
		accepted++
		scs, _ := ir.ParseTrace(r.Trace)
		scen += len(scs)
		for _, s := range scs {
			if s.Fail > 0 {
				failScen++
			}
			key := ""
			for _, e := range s.Evs {
				key += string(e.Kind) + e.Name + ";"
			}
			seen[key] = true
		}
	}
	return accepted, rejected, scen, len(seen), failScen
}

func stdCoverage(c *h.Check, cases []*h.Case, results []*h.Result, rule string) {
	acc, rej, scen, dt, fs := traceStats(results)
	c.Coverage["evaluations"] = len(cases)
	c.Coverage["distinct_nontrivial"] = c.DistinctPrograms()
	c.Coverage["programs_accepted"] = acc
	c.Coverage["programs_rejected"] = rej
	c.Coverage["scenarios"] = scen
	c.Coverage["failure_scenarios"] = fs
	c.Coverage["distinct_event_shapes"] = dt
	c.Coverage["states"] = c.DistinctPrograms()
	c.Coverage["transitions"] = len(cases) + scen
	c.Coverage["traces_validated_against_impl"] = acc + rej
	c.Coverage["rule"] = rule
}

func sampleCase(c *h.Check, cases []*h.Case, results []*h.Result) {
	for i, r := range results {
		if r != nil && len(r.Trace) > 0 && i >= len(results)/2 {
			tr := r.Trace
			if len(tr) > 30 {
				tr = tr[:30]
			}
			c.Samples = append(c.Samples, map[string]interface{}{"case": cases[i].ID, "wire.go": cases[i].Files["wire.go"], "wire_gen.go": r.GenSrc[""], "trace_head": tr})
			return
		}
	}
	if len(cases) > 0 {
		c.Samples = append(c.Samples, map[string]interface{}{"case": cases[0].ID, "wire.go": cases[0].Files["wire.go"]})
	}
}

func checkC03(c *h.Check) {
	specs, st := faultSpecs(c.Tier == "thorough", "C03/dag/")
	specs = append(specs, injectorPairSpecs("C03")...)
	specs = append(specs, namedResultsSpecs("C03")...)
	specs = append(specs, longChainSpecs("C03")[1:2]...)
	cases, results := runSpecs(c, specs, map[string]bool{"error-path": true})
	stdCoverage(c, cases, results, "two injectors of one package with different result shapes (every ordered pair), injectors declared with named results (names among those wire invents), a chain of 17 cleanup providers with failures; all DAGs on <=3 nodes (thorough 4) x {plain,err,cleanup,cleanup+err}^N x result kind x injector shape x variadic last parameters x package-level identifiers colliding with wire's local names (cleanup, cleanup2, err, err2); per program every single failure point and all call histories of length 3 over {ok, fail@k}. Distinct = distinct rendered source; non-trivial = all (every program differs in graph or provider shape).")
	c.Coverage["explorer"] = map[string]interface{}{"executions": st.Executions, "mode": "full product", "max_depth": st.MaxDepth}
	sampleCase(c, cases, results)
	c.Assumptions = append(c.Assumptions, "data independence: identities stand for all argument values", "failure = the provider returns a non-nil error; panics are outside the statement")
	if fs := c.Coverage["failure_scenarios"].(int); fs < 100 && c.Only == "" {
		c.Internalf("vacuous: only %d failure scenarios", fs)
	}
}

func checkC04(c *h.Check) {
	specs, _ := faultSpecs(c.Tier == "thorough", "C04/dag/")
	for i := range specs {
		specs[i].spec.Hist = 0
	}
	specs = append(specs, cleanupSpecs(c.Tier == "thorough")...)
	specs = append(specs, manyTwinsSpecs()...) // same-named providers in same-named packages, with cleanups
	specs = append(specs, injectorPairSpecs("C04")...)
	specs = append(specs, namedResultsSpecs("C04")...)
	specs = append(specs, longChainSpecs("C04")...)
	cases, results := runSpecs(c, specs, map[string]bool{"cleanup": true})
	stdCoverage(c, cases, results, "two injectors of one package with different result shapes, injectors declared with named results (names among those wire invents), chains of 17, 18 and 34 cleanup providers; the C03 DAG family on the success path plus chains/diamonds/fan-ins/ladders with 4-5 cleanup providers, every subset of cleanup-returning nodes, and each node re-kinded as struct/field/pointer-field/binding/value/parameter step. Distinct = distinct rendered source.")
	sampleCase(c, cases, results)
	c.Assumptions = append(c.Assumptions, "data independence: identities stand for all argument values")
	if acc := c.Coverage["programs_accepted"].(int); acc < 500 && c.Only == "" && c.NotRun == 0 {
		c.Internalf("vacuous: only %d programs accepted and executed", acc)
	}
}
