package props

import (
	"fmt"
	"strings"

	"verif/internal/h"
)

// Two packages in one module: app imports lib (and refers to lib's injector from ordinary code), each has its own
// injector file and its own generated output. The history alphabet of C18 is applied to both packages, and gen is
// run on ./..., ./app and ./lib: what one package's output looks like (absent, stale, damaged) and whether the other
// package is currently accepted must not influence what a successful generation leaves behind.

// c18LibGo: the providers of lib and the set app builds from; N varies between variants of lib without changing the
// length of anything generated from it.
func c18LibGo(n int) string {
	return fmt.Sprintf(`package lib

import "github.com/google/wire"

type Dep struct{ N int }

type Box struct{ D Dep }

func NewDep() Dep { return Dep{N: 1} }

func NewBox(d Dep) *Box { return &Box{D: d} }

var Set = wire.NewSet(wire.Value(Dep{N: %d}), NewBox)
`, n)
}

const c18AppGo = `package app

import "example.com/m/lib"

type Svc struct{ B *lib.Box }

func NewSvc(b *lib.Box) *Svc { return &Svc{B: b} }

func NewSvcE(b *lib.Box) (*Svc, error) { return &Svc{B: b}, nil }

// ordinary code of app depends on lib's injector (template under wireinject, generated code otherwise)
var Default = lib.InitBox
`

func c18MultiWire(pkg, imports, body string) string {
	return "//go:build wireinject\n// +build wireinject\n\npackage " + pkg + "\n\nimport (\n\t\"github.com/google/wire\"\n" + imports + ")\n\n" + body
}

type c18mVariant struct {
	name     string
	accepted bool
	wire     string
	n        int // lib: the value in lib.Set
}

type c18mMeta struct{ app, lib string }

func c18Multi(c *h.Check, thorough bool) (states, transitions, invocations int, closed bool, replayed bool) {
	libImp := "\t\"example.com/m/lib\"\n"
	appVars := []c18mVariant{
		{"A1", true, c18MultiWire("app", libImp, "func InitSvc() *Svc {\n\tpanic(wire.Build(lib.Set, NewSvc))\n}\n"), 0},
		{"R1", false, c18MultiWire("app", libImp, "func InitSvc() *Svc {\n\tpanic(wire.Build(lib.NewBox, NewSvc))\n}\n"), 0},
		{"A2", true, c18MultiWire("app", libImp, "func InitSvc() (*Svc, error) {\n\tpanic(wire.Build(lib.NewDep, lib.NewBox, NewSvcE))\n}\n"), 0},
	}
	libVars := []c18mVariant{
		// L1 and L2 differ in a provider set of lib.go (one digit): both lib's and app's outputs change, not their lengths
		{"L1", true, c18MultiWire("lib", "", "func InitBox() *Box {\n\tpanic(wire.Build(Set))\n}\n"), 7},
		{"L2", true, c18MultiWire("lib", "", "func InitBox() *Box {\n\tpanic(wire.Build(Set))\n}\n"), 8},
		{"LR", false, c18MultiWire("lib", "", "func InitBox() *Box {\n\tpanic(wire.Build(NewBox))\n}\n"), 7},
	}
	if !thorough {
		appVars = appVars[:2]
		libVars = libVars[:2]
	}
	const appOut, libOut = "app/wire_gen.go", "lib/wire_gen.go"
	outOf := map[string]string{"app": appOut, "lib": libOut}
	byName := map[string]c18mVariant{}
	for _, v := range append(append([]c18mVariant{}, appVars...), libVars...) {
		byName[v.name] = v
	}
	tree := func(a, l c18mVariant) h.Tree {
		return h.Tree{"app/foo.go": c18AppGo, "app/wire.go": a.wire, "lib/lib.go": c18LibGo(l.n), "lib/wire.go": l.wire}
	}
	ex := &h.FSExplorer{S: c.S, ModPath: "example.com/m"}
	// Fresh outputs from pristine checkouts: per package and own variant; generated against every variant of the
	// other package, which must not matter.
	fresh := map[string]string{}
	for _, a := range appVars {
		for _, l := range libVars {
			d := c.S.Dir("fresh2")
			h.WriteFiles(d, h.ModuleFiles(ex.ModPath))
			h.WriteFiles(d, tree(a, l))
			for pkg, v := range map[string]c18mVariant{"app": a, "lib": l} {
				r := h.RunLimited(d, h.BaseEnv("GOCACHE="+c.S.GoCache), 60e9, h.WireMemKB, c.S.Wire, "gen", "./"+pkg)
				t := h.ReadTree(d)
				got := t[outOf[pkg]]
				if v.accepted != (r.Exit == 0 && got != "") {
					c.Internalf("two-package fresh generation of %s (app=%s lib=%s): exit %d, accepted=%v\n%s", pkg, a.name, l.name, r.Exit, v.accepted, r.Stderr)
					return
				}
				if !v.accepted {
					continue
				}
				if pkg == "app" {
					fresh[a.name+"+"+l.name] = got
				} else {
					if prev, ok := fresh[v.name]; ok && prev != got {
						c.AddViolation(h.Violation{CaseID: "init2:" + a.name + "+" + l.name + " ; gen-" + pkg, Symptom: "not-fresh", Detail: fmt.Sprintf("the fresh output of %s (variant %s) depends on the variant of the package that imports it", pkg, v.name)}, nil, nil)
					}
					fresh[v.name] = got
				}
			}
		}
	}
	damages := map[string]func(pkg, cur string) (string, bool){
		"noncompiling":   func(pkg, cur string) (string, bool) { return consNew + "\npackage " + pkg + "\n\nfunc Init( {\n", true },
		"stale-compiles": func(pkg, cur string) (string, bool) { return consNew + "\npackage " + pkg + "\n\nfunc Stale() {}\n", true },
	}
	order := []string{"noncompiling", "stale-compiles"}
	if thorough {
		damages["garbage-old-syntax"] = func(pkg, cur string) (string, bool) {
			return consOld + "\n%%% this is not Go at all {{{ ]]] unterminated\n", true
		}
		damages["hand-edited"] = func(pkg, cur string) (string, bool) {
			if cur == "" || strings.Contains(cur, "handEdited") || !strings.HasPrefix(cur, "// Code generated by Wire") {
				return "", false
			}
			return cur + "\n// hand edit\nfunc handEdited() {}\n", true
		}
		order = append(order, "garbage-old-syntax", "hand-edited")
	}
	ex.Ops = func(s *h.FSState) []h.FSOp {
		m := s.Meta.(c18mMeta)
		var ops []h.FSOp
		for _, v := range appVars {
			v := v
			if v.name != m.app {
				ops = append(ops, h.FSOp{Name: "switch-app:" + v.name, Edit: func(t h.Tree) (h.Tree, bool) { t["app/wire.go"] = v.wire; return t, true }})
			}
		}
		for _, v := range libVars {
			v := v
			if v.name != m.lib {
				ops = append(ops, h.FSOp{Name: "switch-lib:" + v.name, Edit: func(t h.Tree) (h.Tree, bool) {
					t["lib/wire.go"] = v.wire
					t["lib/lib.go"] = c18LibGo(v.n)
					return t, true
				}})
			}
		}
		ops = append(ops,
			h.FSOp{Name: "gen-all", Argv: []string{"gen", "./..."}},
			h.FSOp{Name: "gen-app", Argv: []string{"gen", "./app"}},
			h.FSOp{Name: "gen-lib", Argv: []string{"gen", "./lib"}},
			h.FSOp{Name: "diff-all", Argv: []string{"diff", "./..."}},
			h.FSOp{Name: "check-all", Argv: []string{"check", "./..."}},
		)
		for _, pkg := range []string{"app", "lib"} {
			pkg := pkg
			o := outOf[pkg]
			if _, ok := s.Tree[o]; ok {
				ops = append(ops, h.FSOp{Name: "delete-" + pkg, Edit: func(t h.Tree) (h.Tree, bool) { delete(t, o); return t, true }})
			}
			for _, dn := range order {
				dn := dn
				if content, ok := damages[dn](pkg, s.Tree[o]); ok && s.Tree[o] != content {
					ops = append(ops, h.FSOp{Name: "damage-" + pkg + ":" + dn, Edit: func(t h.Tree) (h.Tree, bool) { t[o] = content; return t, true }})
				}
			}
		}
		return ops
	}
	ex.Next = func(s *h.FSState, op h.FSOp, after h.Tree) interface{} {
		m := s.Meta.(c18mMeta)
		if strings.HasPrefix(op.Name, "switch-app:") {
			m.app = strings.TrimPrefix(op.Name, "switch-app:")
		}
		if strings.HasPrefix(op.Name, "switch-lib:") {
			m.lib = strings.TrimPrefix(op.Name, "switch-lib:")
		}
		return m
	}
	ex.Key = func(s *h.FSState) string { m := s.Meta.(c18mMeta); return m.app + "+" + m.lib }
	ex.Invariant = func(s *h.FSState, op h.FSOp, o *h.FSOutcome, after h.Tree, dir string, run func(argv ...string) h.FSOutcome) []h.Violation {
		var vs []h.Violation
		m := s.Meta.(c18mMeta)
		cur := map[string]c18mVariant{"app": byName[m.app], "lib": byName[m.lib]}
		bad := func(sym, format string, a ...interface{}) {
			vs = append(vs, h.Violation{Symptom: sym, Detail: fmt.Sprintf("app=%s lib=%s, op %s: ", m.app, m.lib, op.Name) + fmt.Sprintf(format, a...)})
		}
		if o.Crashed || o.TimedOut {
			bad("crash", "wire crashed or hung:\n%s", clip(o.Stderr, 1200))
			return vs
		}
		freshOf := func(pkg string) string {
			if pkg == "app" {
				return fresh[m.app+"+"+m.lib]
			}
			return fresh[m.lib]
		}
		d := s.Tree.Diff(after)
		allAccepted := cur["app"].accepted && cur["lib"].accepted
		switch {
		case strings.HasPrefix(op.Name, "gen-"):
			targets := []string{"app", "lib"}
			if op.Name != "gen-all" {
				targets = []string{strings.TrimPrefix(op.Name, "gen-")}
			}
			ok := true
			for _, pkg := range targets {
				ok = ok && cur[pkg].accepted
			}
			if ok != (o.Exit == 0) {
				bad("history-dependent-verdict", "gen exits %d although a fresh checkout of the named packages is accepted=%v:\n%s", o.Exit, ok, clip(o.Stderr, 1200))
			}
			inTargets := map[string]bool{}
			for _, pkg := range targets {
				inTargets[outOf[pkg]] = true
				if cur[pkg].accepted && o.Exit == 0 && after[outOf[pkg]] != freshOf(pkg) {
					bad("not-fresh", "after a successful gen %s differs from what a fresh checkout gets", outOf[pkg])
				}
				if !cur[pkg].accepted && after[outOf[pkg]] != s.Tree[outOf[pkg]] {
					bad("failed-gen-writes", "gen changed the output of the rejected package %s", pkg)
				}
			}
			for _, x := range d {
				p := x[strings.Index(x, ":")+1:]
				if !inTargets[p] {
					bad("footprint", "gen changed %s", x)
				} else if after[p] != freshOf(strings.SplitN(p, "/", 2)[0]) {
					bad("not-fresh", "gen rewrote %s with something a fresh checkout would not get", p)
				}
			}
			if o.Exit == 0 {
				o2 := run(op.Argv...)
				t2 := h.ReadTree(dir)
				if o2.Exit != 0 || len(after.Diff(t2)) > 0 {
					bad("not-idempotent", "second gen: exit %d, changes %v", o2.Exit, after.Diff(t2))
				}
				if op.Name == "gen-all" {
					o3 := run("diff", "./...")
					if o3.Exit != 0 {
						bad("diff-after-gen", "diff immediately after gen exits %d:\n%s", o3.Exit, clip(o3.Stdout+o3.Stderr, 800))
					}
					if t3 := h.ReadTree(dir); len(t2.Diff(t3)) > 0 {
						bad("diff-writes", "diff changed the tree: %v", t2.Diff(t3))
					}
				}
			}
		default:
			if len(d) > 0 {
				bad("readonly-command-writes", "%s changed the tree: %v", op.Name, d)
			}
			if op.Name == "check-all" && allAccepted != (o.Exit == 0) {
				bad("history-dependent-verdict", "check exits %d, sources accepted=%v:\n%s", o.Exit, allAccepted, clip(o.Stderr, 800))
			}
			if op.Name == "diff-all" {
				want := 0
				if !allAccepted {
					want = 2
				} else if s.Tree[appOut] != freshOf("app") || s.Tree[libOut] != freshOf("lib") {
					want = 1
				}
				if o.Exit != want {
					bad("diff-status", "diff exit %d, want %d", o.Exit, want)
				}
			}
		}
		return vs
	}
	var initial []*h.FSState
	for _, a := range appVars {
		for _, l := range libVars {
			initial = append(initial, &h.FSState{Tree: tree(a, l), Meta: c18mMeta{a.name, l.name}, Path: []string{"init2:" + a.name + "+" + l.name}})
		}
	}
	if c.Only != "" {
		if !strings.HasPrefix(c.Only, "init2:") {
			return 0, 0, 0, true, false
		}
		rvs, err := ex.Replay(initial, c.Only)
		if err != nil {
			c.Internalf("replay: %v", err)
		}
		for _, v := range rvs {
			c.AddViolation(v, nil, map[string]interface{}{"history": v.CaseID})
		}
		return 1, 1, 1, true, true
	}
	vs := ex.Explore(initial, c.Deadline)
	for _, v := range vs {
		c.AddViolation(v, nil, map[string]interface{}{"history": v.CaseID})
	}
	return ex.States, ex.Transitions, ex.Invocations, ex.Closed, false
}
