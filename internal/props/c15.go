package props

import (
	"fmt"
	"go/ast"
	"go/parser"
	"go/token"
	"strings"

	"verif/internal/astcmp"
	"verif/internal/h"
)

func init() { register("C15", "model_checking", checkC15) }

// One row per syntactic construct. Each row's declarations are placed in the injector file after
// the injector and must be copied to wire_gen.go. F is the name of a func() string exercising it.
type c15Row struct {
	name  string
	decls string
	f     string
}

func c15Rows() []c15Row {
	return []c15Row{
		{"const-iota-group", `
// Weekday doc comment.
type Weekday int

const (
	Sunday Weekday = iota
	Monday
	Tuesday
	_
	Thursday = Weekday(iota * 10)
)

const single, double = 1, "two"

func FConst() string { return itoa(int(Monday)) + itoa(int(Tuesday)) + itoa(int(Thursday)) + itoa(single) + double }
`, "FConst"},
		{"var-forms", `
var (
	va, vb = 1, "b"
	vc     int
	vd     = []int{1, 2, 3}
)

var ve, vf int = 4, 5

var vg = struct {
	X int
	Y string
}{X: 7, Y: "y"}

func FVar() string { vc++; return itoa(va) + vb + itoa(vc) + itoa(len(vd)) + itoa(ve+vf) + itoa(vg.X) + vg.Y }
`, "FVar"},
		{"struct-type-tags-embedding", `
type base struct{ ID int }

type tagged struct {
	base
	*inner
	Name  string ` + "`json:\"name\" wire:\"-\"`" + `
	A, B  int    ` + "`x:\"y\"`" + `
	Fn    func(int) string
	Ch    chan<- int
	Rc    <-chan int
	Arr   [3]int
	M     map[string][]int
	Anon  struct{ Z bool }
	Iface interface{ M() int }
}

type inner struct{ V int }

func FStruct() string {
	t := tagged{base: base{ID: 3}, inner: &inner{V: 4}, Name: "n", A: 1, B: 2, Fn: itoa}
	t.Arr[1] = 9
	t.M = map[string][]int{"k": {1, 2}}
	t.Anon.Z = true
	return itoa(t.ID) + itoa(t.V) + t.Name + t.Fn(t.A+t.B) + itoa(t.Arr[1]) + itoa(len(t.M["k"]))
}
`, "FStruct"},
		{"alias-and-defined-types", `
type myInt = int

type yourInt int

type (
	fnType  func(a int, b ...string) (n int, err error)
	mapType map[yourInt]*myInt
	ptrType *yourInt
)

func FAlias() string {
	var a myInt = 3
	var b yourInt = yourInt(a)
	var f fnType = func(a int, b ...string) (int, error) { return a + len(b), nil }
	n, _ := f(1, "x", "y")
	m := mapType{b: &a}
	return itoa(a) + itoa(int(b)) + itoa(n) + itoa(*m[b])
}
`, "FAlias"},
		{"interfaces", `
type reader interface {
	Read() string
}

type readCloser interface {
	reader
	Close() (err error)
	private(int, ...string)
}

type rc struct{ s string }

func (r rc) Read() string           { return r.s }
func (r *rc) Close() (err error)    { r.s = "closed"; return }
func (r rc) private(int, ...string) {}

func FIface() string {
	var x readCloser = &rc{s: "open"}
	s := x.Read()
	x.Close()
	var e interface{} = x
	_, ok := e.(reader)
	y, ok2 := e.(*rc)
	return s + x.Read() + btoa(ok) + btoa(ok2) + y.s
}
`, "FIface"},
		{"func-forms", `
func namedResults(a, b int, rest ...string) (sum int, desc string) {
	sum = a + b
	for _, r := range rest {
		desc += r
	}
	return
}

func FFunc() string {
	s, d := namedResults(1, 2, "x", "y")
	xs := []string{"p", "q"}
	s2, d2 := namedResults(3, 4, xs...)
	return itoa(s) + d + itoa(s2) + d2
}
`, "FFunc"},
		{"methods-and-method-values", `
type counter struct{ n int }

func (c *counter) Inc() *counter { c.n++; return c }
func (c counter) Get() int       { return c.n }
func (counter) Static() string   { return "s" }

func FMethod() string {
	c := &counter{}
	c.Inc().Inc()
	get := c.Get
	inc := (*counter).Inc
	inc(c)
	st := counter.Static
	return itoa(get()) + itoa(c.Get()) + st(*c)
}
`, "FMethod"},
		{"closures-defer-recover", `
func FClosure() (out string) {
	acc := 0
	add := func(n int) func() int {
		return func() int { acc += n; return acc }
	}
	a1 := add(1)
	a1()
	a1()
	defer func() {
		if r := recover(); r != nil {
			out = out + "recovered" + itoa(acc)
		}
	}()
	defer a1()
	func() { out = "in" }()
	var p *counter2
	_ = p.v
	return "unreachable"
}

type counter2 struct{ v int }
`, "FClosure"},
		{"goroutines-channels-select", `
func FChan() string {
	ch := make(chan int, 2)
	done := make(chan struct{})
	var send chan<- int = ch
	var recv <-chan int = ch
	go func() {
		send <- 1
		send <- 2
		close(done)
	}()
	<-done
	a := <-recv
	b, ok := <-recv
	res := itoa(a) + itoa(b) + btoa(ok)
	select {
	case v := <-recv:
		res += itoa(v)
	case send <- 3:
		res += "sent"
	default:
		res += "default"
	}
	select {
	case v, ok := <-recv:
		res += itoa(v) + btoa(ok)
	}
	return res
}
`, "FChan"},
		{"labels-goto-break-continue", `
func FLabel() string {
	res := ""
	i := 0
outer:
	for i < 4 {
		i++
	inner:
		for j := 0; j < 4; j++ {
			switch {
			case j == 1:
				continue inner
			case j == 2 && i == 2:
				continue outer
			case j == 3:
				break inner
			case i == 4:
				break outer
			}
			res += itoa(i*10 + j)
		}
	}
	n := 0
loop:
	if n < 3 {
		n++
		goto loop
	}
	return res + itoa(n)
}
`, "FLabel"},
		{"switch-forms", `
func FSwitch() string {
	res := ""
	for i := 0; i < 5; i++ {
		switch x := i * 2; x {
		case 0:
			res += "z"
			fallthrough
		case 2, 4:
			res += "e"
		case 6:
		default:
			res += "d"
		}
		switch {
		case i > 3:
			res += ">"
		}
	}
	var vals = []interface{}{1, "s", 2.5, nil, []int{1}, struct{}{}}
	for _, v := range vals {
		switch t := v.(type) {
		case int:
			res += itoa(t)
		case string, float64:
			res += "sf"
		case nil:
			res += "nil"
		case []int:
			res += itoa(len(t))
		default:
			_ = t
			res += "?"
		}
		switch v.(type) {
		case int:
			res += "i"
		}
	}
	return res
}
`, "FSwitch"},
		{"for-and-range-forms", `
func FFor() string {
	res := ""
	for i, j := 0, 10; i < j; i, j = i+1, j-2 {
		res += itoa(i)
	}
	k := 0
	for k < 2 {
		k++
	}
	for {
		k++
		if k > 4 {
			break
		}
	}
	for i := range []int{5, 6} {
		res += itoa(i)
	}
	for _, v := range [2]string{"a", "b"} {
		res += v
	}
	m := map[string]int{"only": 1}
	for key, v := range m {
		res += key + itoa(v)
	}
	for i, r := range "hé" {
		res += itoa(i) + string(r)
	}
	ch := make(chan int, 1)
	ch <- 7
	close(ch)
	for v := range ch {
		res += itoa(v)
	}
	var idx int
	for idx = range []int{1, 2, 3} {
	}
	for range []int{1, 2} {
		k++
	}
	return res + itoa(idx) + itoa(k)
}
`, "FFor"},
		{"slices-arrays-maps-composites", `
type point struct{ X, Y int }

func FComposite() string {
	s := []int{0, 1, 2, 3, 4, 5}
	a := s[1:3]
	b := s[:2]
	c := s[4:]
	d := s[:]
	e := s[1:2:4]
	arr := [...]string{2: "c", 0: "a"}
	pts := []point{{1, 2}, {X: 3}}
	pp := []*point{{Y: 9}}
	mm := map[point]string{{1, 2}: "p"}
	nested := [][]int{{1}, {2, 3}}
	emb := map[string]map[string]int{"o": {"i": 4}}
	return itoa(len(a)) + itoa(len(b)) + itoa(len(c)) + itoa(len(d)) + itoa(cap(e)) + itoa(len(arr)) + arr[2] + itoa(pts[1].X) + itoa(pp[0].Y) + mm[point{1, 2}] + itoa(nested[1][1]) + itoa(emb["o"]["i"])
}
`, "FComposite"},
		{"operators-and-parens", `
func FOps() string {
	a, b := 7, 3
	x := (a+b)*(a-b)/b%5 + a<<2 - a>>1 + a&b | a ^ b + a&^b
	f := -a + +b - ^a
	t := !(a > b && b >= 3 || a == b) != (a <= b)
	p := &a
	*p += 2
	pp := &p
	**pp <<= 1
	a -= 1
	a *= 2
	a /= 3
	a %= 7
	a |= 8
	a &= 0xF
	a ^= 0x3
	a >>= 1
	a &^= 1
	a++
	b--
	var c complex128 = 1 + 2i
	fl := 1.5e1 + 0x10 + 0o7 + 0b11 + 1_000
	r := 'x' + '\n'
	s := "a\tb" + ` + "`raw\\n`" + `
	return itoa(x) + itoa(f) + btoa(t) + itoa(a) + itoa(b) + itoa(int(real(c))) + itoa(int(fl)) + itoa(int(r)) + itoa(len(s))
}
`, "FOps"},
		{"if-else-blocks-empty", `
func FIf() string {
	res := ""
	if x := 3; x > 2 {
		res += "a"
	} else if x > 1 {
		res += "b"
	} else {
		res += "c"
	}
	if res == "" {
	}
	{
		res := "shadow"
		_ = res
	}
	var (
		l1 = 1
		l2 string
	)
	const lc = 5
	type lt struct{ q int }
	v := lt{q: l1 + lc}
	return res + itoa(v.q) + l2
}
`, "FIf"},
		{"generics", `
type number interface {
	~int | ~int64 | ~float64
}

type pair[K comparable, V any] struct {
	Key K
	Val V
}

func (p pair[K, V]) String() string { return "pair" }

type list[T any] []T

func mapSlice[T, U any](xs []T, f func(T) U) []U {
	var out []U
	for _, x := range xs {
		out = append(out, f(x))
	}
	return out
}

func sum[T number](xs ...T) T {
	var s T
	for _, x := range xs {
		s += x
	}
	return s
}

func FGeneric() string {
	p := pair[string, int]{Key: "k", Val: 2}
	var l list[int] = list[int]{1, 2, 3}
	strs := mapSlice[int, string](l, itoa)
	strs2 := mapSlice(l, func(i int) string { return itoa(i * 2) })
	f := sum[int]
	return p.Key + itoa(p.Val) + p.String() + strs[2] + strs2[2] + itoa(f(1, 2, 3)) + itoa(int(sum(1.5, 2.5)))
}
`, "FGeneric"},
		{"imports-qualified-and-dot", `
var cfgCopy = acfg.Default + DotConst

type wrapper struct {
	C acfg.Config
	D DotType
}

func FImport() string {
	w := wrapper{C: acfg.Config{N: acfg.Default}, D: DotType{S: DotVar}}
	var fn func(int) int = acfg.Double
	return itoa(cfgCopy) + itoa(w.C.N) + w.D.S + itoa(fn(4)) + itoa(DotFunc(2)) + w.D.Method() + acfg.Config.Describe(w.C)
}
`, "FImport"},
		{"selectors-on-dot-imported-identifiers", `
func FDotSel() string {
	m := DotType.Method
	return DotStruct.S + DotStruct.Method() + m(DotStruct) + DotPtr.S + (*DotPtr).Method()
}
`, "FDotSel"},
		{"local-shadowing-a-package-level-name-next-to-its-second-choice", `
func FCapture() string {
	limit2 := 5
	res := ""
	for it := 0; it < 3; it++ {
		limit := it * 3
		if limit2 > limit {
			res += "a"
		} else {
			res += "b"
		}
	}
	return res + itoa(limit2) + itoa(limit)
}

func FCapture2(limit int) (limit2 string) {
	limit3 := limit + 1
	{
		limit := "x"
		limit2 = limit + itoa(limit3)
	}
	return
}

func FCaptureAll() string { return FCapture() + FCapture2(4) }
`, "FCaptureAll"},
		{"type-switch-variable-named-like-import-or-package-level-name", `
func FTypeSwitchVar(v interface{}) string {
	switch cfg := v.(type) {
	case int:
		return "int" + itoa(cfg) + itoa(acfg.Default)
	case string:
		return "string" + cfg
	case nil:
		return "nil"
	default:
		_ = cfg
		return "other"
	}
}

func FTypeSwitchVar2(v interface{}) string {
	limit2 := "keep"
	switch limit := v.(type) {
	case int, int64:
		_ = limit
		return "ints" + limit2
	case string:
		return limit + limit2
	}
	return "none"
}

func FTypeSwitchVar3(v interface{}) string {
	limit := 3
	switch limit2 := v.(type) {
	case int:
		return itoa(limit + limit2)
	case string:
		return limit2 + itoa(limit)
	}
	return itoa(limit)
}

func FTypeSwitchAll() string {
	return FTypeSwitchVar(3) + FTypeSwitchVar("s") + FTypeSwitchVar(nil) + FTypeSwitchVar(2.5) + FTypeSwitchVar2(1) + FTypeSwitchVar2("x") + FTypeSwitchVar2(1.5) +
		FTypeSwitchVar3(4) + FTypeSwitchVar3("y") + FTypeSwitchVar3(nil)
}
`, "FTypeSwitchAll"},
		{"parentheses-the-printer-cannot-restore", `
type feeds chan (<-chan int)

func newFeeds() chan (<-chan int) { return make(chan (<-chan int), 1) }

func FParens() string {
	t := Thing{}
	res := ""
	if t == (Thing{}) {
		res += "zero"
	}
	for u := (Thing{A: 1}); u != (Thing{A: 3}); u.A++ {
		res += itoa(u.A)
	}
	switch t {
	case (Thing{}):
		res += "case"
	}
	f := newFeeds()
	inner := make(chan int, 1)
	inner <- 7
	f <- inner
	var g feeds = f
	res += itoa(<-(<-g))
	var h (func() int) = func() int { return 2 }
	return res + itoa((h)()) + itoa(-(-3)) + itoa((1+2)*3)
}
`, "FParens"},
		{"method-named-like-the-injector", `
func (t Thing) InitThing() string { return "method" + itoa(t.A) }

type starter interface{ InitThing() string }

func FMethodNamed() string {
	var x interface{} = Thing{A: 4}
	if s, ok := x.(starter); ok {
		return s.InitThing()
	}
	return "no such method"
}
`, "FMethodNamed"},
		{"local-const-type-typeparam-named-like-generated-import", `
type labelT string

func (l labelT) Name() string { return "local " + string(l) }

func pick[cfg any](x cfg) cfg { return x }

func FLocalKinds() string {
	const cfg labelT = "const"
	type cfg2 struct{ V int }
	v := cfg2{V: acfg.Default}
	res := acfg.Name() + "/" + cfg.Name() + itoa(v.V)
	{
		type cfg struct{ W int }
		w := cfg{W: acfg.Double(2)}
		res += itoa(w.W)
	}
	return res + itoa(pick[int](acfg.Default))
}
`, "FLocalKinds"},
		{"aliased-import-used-only-by-copied-code", `
type onlyLogger struct{ Word string }

func (onlyLogger) Twice(x int) int { return 3 * x }

// the first mention of the package in the whole file sits next to a parameter named like the package itself
func FOnlyFirst(onlycopied onlyLogger) string {
	return only.Word + onlycopied.Word + itoa(only.Twice(4)) + itoa(onlycopied.Twice(4))
}

func FOnly() string { return FOnlyFirst(onlyLogger{Word: "mine"}) + only.Word + itoa(only.Twice(4)) }
`, "FOnly"},
		{"local-named-like-generated-import", `
func FShadow() string {
	cfg := 5
	cfg2 := 6
	res := itoa(cfg) + itoa(cfg2)
	{
		cfg := "inner"
		cfg3 := cfg + "3"
		res += cfg3
	}
	for cfg := 0; cfg < 2; cfg++ {
		res += itoa(cfg)
	}
	f := func(cfg2 int, cfg string) string { return cfg + itoa(cfg2) }
	res += f(1, "p")
	return res + itoa(acfg.Default)
}

func FShadowParam(cfg int, cfg2 string) (cfg3 string) {
	cfg3 = cfg2 + itoa(cfg)
	return
}
`, "FShadow"},
		{"label-named-like-import-and-second-choice", `
func FShadow2() string {
	res := ""
	n := 0
cfg:
	for {
		n++
		cfg2 := n * 2
		if cfg2 > 4 {
			break cfg
		}
		res += itoa(cfg2)
	}
	type cfg3 struct{ cfg int }
	v := cfg3{cfg: 9}
	return res + itoa(v.cfg)
}
`, "FShadow2"},
		{"doc-comments-and-directives", `
// FDoc has a doc comment
// spanning two lines.
//
//go:noinline
func FDoc() string { return "doc" }

// Documented type.
type documented struct {
	// F is documented.
	F int // trailing
}

/* block comment doc */
var documentedVar = documented{F: 1}
`, "FDoc"},
		{"unusual-spacing-and-literals", `
func FLit() string {
	var (
		a = [...]int{1, 2, 3,}
		b = map[string]struct{}{"x": {}}
		c = func() {}
		d = (*int)(nil)
		e = []byte("bytes")
		f = string(e[1:3])
		g = struct{}{}
		h = [2][2]int{{1, 2}, {3, 4}}
		i = &point2{1}
		j = new(int)
		k = make(map[int]int, 4)
		l = cap(make([]int, 1, 8))
	)
	c()
	_ = g
	*j = 3
	k[1] = 2
	return itoa(len(a)) + itoa(len(b)) + btoa(d == nil) + f + itoa(h[1][0]) + itoa(i.v) + itoa(*j) + itoa(k[1]) + itoa(l)
}

type point2 struct{ v int }
`, "FLit"},
	}
}

const c15Defs = `package p

// helpers that are NOT in the injector file (so they are not copied)
func itoa(n int) string {
	if n == 0 {
		return "0"
	}
	neg := n < 0
	if neg {
		n = -n
	}
	s := ""
	for n > 0 {
		s = string(rune('0'+n%10)) + s
		n /= 10
	}
	if neg {
		s = "-" + s
	}
	return s
}

func btoa(b bool) string {
	if b {
		return "T"
	}
	return "F"
}

type Thing struct {
	A int
	B int
}

var limit = 1000
`

const c15LibA = `package cfg

type Config struct{ N int }

func (c Config) Describe() string { return "cfgA" }

var Default = 11

func Double(x int) int { return 2 * x }

func NewA() int { return Default }

func Name() string { return "package cfg" }
`

const c15LibB = `package cfg

var Default = 22

type B struct{ V int }

func NewB() B { return B{V: Default} }
`

const c15Dot = `package dotpkg

const DotConst = 100

var DotVar = "dotvar"

type DotType struct{ S string }

func (d DotType) Method() string { return "m" + d.S }

func DotFunc(x int) int { return x + 1 }

var DotStruct = DotType{S: "ds"}

var DotPtr = &DotStruct
`

// c15FilesOpt: dotNamedP declares the dot-imported package under the same package NAME as the injector's package;
// twoFiles puts the second half of the rows, with an injector of their own, into a second injector file.
func c15FilesOpt(rows []c15Row, dotNamedP, twoFiles bool) map[string]string {
	files := c15Files(rows)
	if dotNamedP {
		files["dotpkg/dot.go"] = strings.Replace(files["dotpkg/dot.go"], "package dotpkg", "package p", 1)
	}
	if twoFiles && len(rows) >= 2 {
		first := c15Files(rows[:len(rows)/2])
		second := c15Files(rows[len(rows)/2:])
		files["wire.go"] = first["wire.go"]
		w2 := second["wire.go"]
		w2 = strings.Replace(w2, "func InitThing() Thing", "func InitThing2() Thing", 1)
		w2 = strings.Replace(w2, "func newThing(a int, b bcfg.B) Thing { return Thing{A: a, B: b.V + DotConst*0} }\n", "var second = DotConst\n", 1)
		if dotNamedP {
			// keep as is
		}
		files["wire_second.go"] = w2
	}
	return files
}

func c15Files(rows []c15Row) map[string]string {
	var decls strings.Builder
	var calls strings.Builder
	for _, r := range rows {
		decls.WriteString(r.decls)
		fmt.Fprintf(&calls, "\tvt.Note(%q + \"=\" + %s())\n", r.name, r.f)
	}
	onlyImp := ""
	if strings.Contains(decls.String(), "only.") {
		onlyImp = "\tonly \"{{ROOT}}/thirdvendor/onlycopied\"\n" // a directory whose name merely ends in "vendor"
	}
	wire := "//go:build wireinject\n// +build wireinject\n\npackage p\n\nimport (\n\tacfg \"{{ROOT}}/alpha/cfg\"\n\tbcfg \"{{ROOT}}/beta/cfg\"\n\t. \"{{ROOT}}/dotpkg\"\n" + onlyImp + "\t\"github.com/google/wire\"\n)\n\n" +
		"func InitThing() Thing {\n\tpanic(wire.Build(acfg.NewA, bcfg.NewB, newThing))\n}\n\nfunc newThing(a int, b bcfg.B) Thing { return Thing{A: a, B: b.V + DotConst*0} }\n" + decls.String()
	driver := "package p\n\nimport \"example.com/m/vt\"\n\nfunc VerifDrive() {\n\tvt.Case(\"{{CASE}}\")\n" + calls.String() + "\tfunc() {\n\t\tdefer func() { recover() }()\n\t\tt := InitThing()\n\t\tvt.Note(\"thing=\" + itoa(t.A) + itoa(t.B))\n\t}()\n}\n"
	return map[string]string{
		"defs.go":                     c15Defs,
		"wire.go":                     wire,
		"driver.go":                   driver,
		"alpha/cfg/cfg.go":            c15LibA,
		"beta/cfg/cfg.go":             c15LibB,
		"dotpkg/dot.go":               c15Dot,
		"thirdvendor/onlycopied/o.go": "package onlycopied\n\nvar Word = \"only\"\n\nfunc Twice(x int) int { return 2 * x }\n",
	}
}

// copiedDecls returns the declarations of an injector file that wire must copy.
func copiedDecls(f *ast.File) []ast.Decl {
	var out []ast.Decl
	for _, d := range f.Decls {
		switch d := d.(type) {
		case *ast.GenDecl:
			if d.Tok == token.IMPORT {
				continue
			}
			out = append(out, d)
		case *ast.FuncDecl:
			if (d.Name.Name == "InitThing" || d.Name.Name == "InitThing2") && d.Recv == nil {
				continue
			}
			out = append(out, d)
		}
	}
	return out
}

func declName(d ast.Decl) string {
	switch d := d.(type) {
	case *ast.FuncDecl:
		if d.Recv != nil && len(d.Recv.List) > 0 {
			return "method " + d.Name.Name
		}
		return "func " + d.Name.Name
	case *ast.GenDecl:
		if len(d.Specs) > 0 {
			switch s := d.Specs[0].(type) {
			case *ast.TypeSpec:
				return "type " + s.Name.Name
			case *ast.ValueSpec:
				return d.Tok.String() + " " + s.Names[0].Name
			}
		}
	}
	return "decl"
}

func judgeC15(files map[string]string) func(r *h.Result) []h.Violation {
	return func(r *h.Result) []h.Violation {
		if r.Crashed {
			return []h.Violation{{Symptom: "crash", Detail: clip(r.Raw, 1500)}}
		}
		if r.TimedOut {
			return []h.Violation{{Symptom: "timeout", Detail: "wire did not terminate"}}
		}
		if r.LoadFailed {
			return []h.Violation{{Symptom: "harness-illtyped", Detail: clip(r.AllDiags(), 1000)}}
		}
		if r.Root().Failed {
			return []h.Violation{{Symptom: "rejected", Detail: "wire rejected a well-formed injector file:\n" + clip(strings.Join(r.Root().Diags, "\n"), 1000)}}
		}
		var vs []h.Violation
		gen := r.GenSrc[""]
		// (1) structural comparison
		fset := token.NewFileSet()
		orig, err := parser.ParseFile(fset, "wire.go", strings.ReplaceAll(files["wire.go"], "{{ROOT}}", "x"), parser.ParseComments)
		if err != nil {
			return []h.Violation{{Symptom: "harness-parse", Detail: err.Error()}}
		}
		var orig2 *ast.File
		if src2, ok := files["wire_second.go"]; ok {
			orig2, err = parser.ParseFile(fset, "wire_second.go", strings.ReplaceAll(src2, "{{ROOT}}", "x"), parser.ParseComments)
			if err != nil {
				return []h.Violation{{Symptom: "harness-parse", Detail: err.Error()}}
			}
		}
		gf, err := parser.ParseFile(fset, "wire_gen.go", gen, parser.ParseComments)
		if err != nil {
			vs = append(vs, h.Violation{Symptom: "output-does-not-parse", Detail: err.Error() + "\n" + clip(gen, 2000)})
			return vs
		}
		want := copiedDecls(orig)
		if orig2 != nil {
			want = append(want, copiedDecls(orig2)...)
		}
		var got []ast.Decl
		for _, d := range copiedDecls(gf) {
			// the generated file starts with the injector implementation; skip package-level value vars wire adds
			got = append(got, d)
		}
		if len(got) != len(want) {
			var wn, gn []string
			for _, d := range want {
				wn = append(wn, declName(d))
			}
			for _, d := range got {
				gn = append(gn, declName(d))
			}
			vs = append(vs, h.Violation{Symptom: "decl-count", Detail: fmt.Sprintf("the injector file has %d declarations to copy, the output has %d\nwant: %v\ngot:  %v", len(want), len(got), wn, gn)})
		} else {
			for i := range want {
				ren := astcmp.NewRenaming()
				if err := astcmp.Equal(want[i], got[i], ren); err != nil {
					vs = append(vs, h.Violation{Symptom: "structure", Detail: fmt.Sprintf("copied declaration %d (%s) is not structurally identical to the original: %v", i, declName(want[i]), err)})
					if len(vs) > 4 {
						break
					}
				}
			}
		}
		// (2) the package compiles without the wireinject tag (wire_gen.go) and with it (originals)
		if r.CompileErr != "" {
			vs = append(vs, h.Violation{Symptom: "compile-error", Detail: "the package with wire_gen.go does not compile:\n" + clip(r.CompileErr, 1500)})
			return vs
		}
		if r.TaggedCompileErr != "" {
			vs = append(vs, h.Violation{Symptom: "harness-tagged-compile", Detail: clip(r.TaggedCompileErr, 1200)})
			return vs
		}
		if !r.Ran || !r.TaggedRan {
			vs = append(vs, h.Violation{Symptom: "harness-notrun", Detail: fmt.Sprintf("ran=%v taggedRan=%v", r.Ran, r.TaggedRan)})
			return vs
		}
		// (3) behaviour: the same driver prints the same lines with the copies as with the originals
		a, b := strings.Join(r.Trace, "\n"), strings.Join(r.TaggedTrace, "\n")
		// the injector itself panics in the tagged build (template); compare only the row lines
		filter := func(s string) string {
			var out []string
			for _, l := range strings.Split(s, "\n") {
				if strings.HasPrefix(l, "N ") && !strings.HasPrefix(l, "N thing=") {
					out = append(out, l)
				}
			}
			return strings.Join(out, "\n")
		}
		if filter(a) != filter(b) || filter(a) == "" {
			vs = append(vs, h.Violation{Symptom: "behaviour", Detail: "the copied declarations behave differently from the originals:\n--- copies (wire_gen.go) ---\n" + clip(filter(a), 1200) + "\n--- originals (wireinject) ---\n" + clip(filter(b), 1200)})
		}
		return vs
	}
}

func checkC15(c *h.Check) {
	c.R.AlsoTagged = true
	rows := c15Rows()
	var cases []*h.Case
	// one case per row (isolation), plus all rows together
	for _, r := range rows {
		files := c15Files([]c15Row{r})
		cases = append(cases, &h.Case{ID: "C15/row/" + r.name, Files: files, Drive: true, Judge: judgeC15(files)})
	}
	all := c15Files(rows)
	cases = append(cases, &h.Case{ID: "C15/all-rows", Files: all, Drive: true, Judge: judgeC15(all)})
	dotp := c15FilesOpt(rows, true, false)
	cases = append(cases, &h.Case{ID: "C15/all-rows/dot-package-named-like-the-injector-package", Files: dotp, Drive: true, Judge: judgeC15(dotp)})
	two := c15FilesOpt(rows, false, true)
	cases = append(cases, &h.Case{ID: "C15/all-rows/two-injector-files", Files: two, Drive: true, Judge: judgeC15(two)})
	for _, cs := range cases {
		c.NoteProgram(cs.Files)
	}
	// the tagged build panics inside InitThing (template); the driver must not call it there: handled by recover in zmain
	results := c.JudgeAll(cases)
	nodes := map[string]bool{}
	for _, cs := range cases[:len(cases)-1] {
		fset := token.NewFileSet()
		if f, err := parser.ParseFile(fset, "w.go", strings.ReplaceAll(cs.Files["wire.go"], "{{ROOT}}", "x"), 0); err == nil {
			ast.Inspect(f, func(n ast.Node) bool {
				if n != nil {
					nodes[fmt.Sprintf("%T", n)] = true
				}
				return true
			})
		}
	}
	ran := 0
	for _, r := range results {
		if r != nil && r.Ran {
			ran++
		}
	}
	c.Coverage["evaluations"] = len(cases)
	c.Coverage["distinct_nontrivial"] = c.DistinctPrograms()
	c.Coverage["states"] = c.DistinctPrograms()
	c.Coverage["transitions"] = 2 * len(cases)
	c.Coverage["traces_validated_against_impl"] = ran
	c.Coverage["ast_node_kinds_in_corpus"] = len(nodes)
	c.Coverage["rule"] = fmt.Sprintf("%d rows, each a group of declarations placed in an injector file (one case per row plus all rows together), together covering %d distinct go/ast node kinds: const/var/type groups with iota, struct tags, embedding, aliases, interfaces, named results, variadics and ... calls, methods, method values/expressions, closures, defer/recover, goroutines, channel directions, select, labels with goto/break/continue, every switch form incl. type switches with binding and fallthrough, every for/range form, 2- and 3-index slices, composite literals with elision, every operator and assignment operator, number/rune/string/raw literals, generics (type parameter lists, constraints with unions, instantiations with one and several type arguments), qualified and dot-imported identifiers, locals/parameters/labels named like the generated file's import names and their second choices, doc comments. Oracle: (1) wire_gen.go parses and the copied declarations appear exactly once, in source order, structurally identical field by field (position flags included) up to wire's renaming; (2) the package compiles with wire_gen.go and with the originals; (3) the same driver prints identical lines for every row with the copies as with the originals.", len(rows), len(nodes))
	if len(cases) > 9 && len(results) == len(cases) {
		c.Samples = append(c.Samples, map[string]interface{}{"case": cases[9].ID, "decls": rows[9].decls, "trace": results[9].Trace})
	}
	c.Assumptions = append(c.Assumptions, "the corpus is finite: one row per construct, not every combination of constructs", "capture-freedom of wire's local renaming is decided by compiling and running the copy, not by the structural comparison")
	if c.Only == "" && len(nodes) < 45 {
		c.Internalf("vacuous: only %d node kinds in the corpus", len(nodes))
	}
}
