// Package maporder builds an instrumented wire binary in which every iteration
// over a Go map (and over typeutil.Map) follows an order prescribed by a schedule
// file, so that wire's internal nondeterminism is owned by the checker. The
// instrumentation is generated from /repo's current working tree on every run
// and applied with `go build -overlay`; nothing is committed to /repo.
package maporder

import (
	"bytes"
	"encoding/json"
	"fmt"
	"go/ast"
	"go/importer"
	"go/parser"
	"go/token"
	"go/types"
	"io"
	"os"
	"os/exec"
	"path/filepath"
	"sort"
	"strings"
)

// Site is one rewritten range statement.
type Site struct {
	ID   int
	Pkg  string
	Pos  string // file:line
	Expr string
	Key  string
	Val  string
}

type listPkg struct {
	ImportPath string
	Name       string
	Dir        string
	Export     string
	GoFiles    []string
	Module     *struct{ Path, Dir string }
}

const helperTmpl = `package PKGNAME

import (
	"bufio"
	"fmt"
	"os"
	"reflect"
	"sort"
	"strconv"
	"strings"
)

type verifEntry struct{ K, V interface{} }

var (
	verifVisit  = map[string]int{}
	verifLoaded bool
	verifPerms  = map[string]map[int][]int{}
	verifPolicy = map[string]string{}
)
HOOKINIT

func verifLoad() {
	if verifLoaded {
		return
	}
	verifLoaded = true
	f, err := os.Open(os.Getenv("VERIF_SCHED"))
	if err != nil {
		return
	}
	defer f.Close()
	sc := bufio.NewScanner(f)
	for sc.Scan() {
		fs := strings.Fields(sc.Text())
		if len(fs) < 3 {
			continue
		}
		if fs[1] == "*" {
			verifPolicy[fs[0]] = fs[2]
			continue
		}
		v, _ := strconv.Atoi(fs[1])
		var p []int
		for _, x := range fs[2:] {
			n, _ := strconv.Atoi(x)
			p = append(p, n)
		}
		if verifPerms[fs[0]] == nil {
			verifPerms[fs[0]] = map[int][]int{}
		}
		verifPerms[fs[0]][v] = p
	}
}

// verifPerm returns the order in which n canonically sorted entries are visited.
func verifPerm(site int, n int) []int { return verifPermTag("PKGTAG", site, n) }

func verifPermTag(tag string, site int, n int) []int {
	verifLoad()
	visit := verifVisit[tag]
	verifVisit[tag]++
	if tf := os.Getenv("VERIF_TRACE"); tf != "" {
		if f, err := os.OpenFile(tf, os.O_APPEND|os.O_CREATE|os.O_WRONLY, 0644); err == nil {
			fmt.Fprintf(f, "%s %d %d %d\n", tag, visit, site, n)
			f.Close()
		}
	}
	p := make([]int, n)
	for i := range p {
		p[i] = i
	}
	if q, ok := verifPerms[tag][visit]; ok {
		if len(q) != n {
			fmt.Fprintf(os.Stderr, "VERIF-SCHEDULE-DIVERGENCE %s visit %d: schedule has %d entries, map has %d\n", tag, visit, len(q), n)
			os.Exit(97)
		}
		return q
	}
	switch verifPolicy[tag] {
	case "reverse":
		for i := range p {
			p[i] = n - 1 - i
		}
	case "rotate":
		for i := range p {
			p[i] = (i + 1) % n
		}
	}
	return p
}

func verifSortKey(k, v reflect.Value) string {
	switch k.Kind() {
	case reflect.String:
		return k.String()
	case reflect.Struct, reflect.Int, reflect.Int32, reflect.Int64, reflect.Uint32, reflect.Uint64:
		return fmt.Sprint(k.Interface())
	}
	if v.Kind() == reflect.String {
		return v.String()
	}
	return fmt.Sprint(v.Interface())
}

// verifOrder returns the entries of map m in the scheduled order.
func verifOrder(site int, m interface{}) []verifEntry {
	rv := reflect.ValueOf(m)
	keys := rv.MapKeys()
	type ke struct {
		s string
		e verifEntry
	}
	es := make([]ke, len(keys))
	for i, k := range keys {
		v := rv.MapIndex(k)
		es[i] = ke{verifSortKey(k, v), verifEntry{k.Interface(), v.Interface()}}
	}
	sort.SliceStable(es, func(i, j int) bool { return es[i].s < es[j].s })
	perm := verifPerm(site, len(es))
	out := make([]verifEntry, len(es))
	for i, j := range perm {
		out[i] = es[j].e
	}
	return out
}
`

// Build generates the overlay and builds the instrumented binary at out.
func Build(repo, workDir, out string, env []string) ([]Site, error) {
	cmd := exec.Command("go", "list", "-export", "-deps", "-json", "./cmd/wire")
	cmd.Dir = repo
	cmd.Env = env
	var stderr bytes.Buffer
	cmd.Stderr = &stderr
	b, err := cmd.Output()
	if err != nil {
		return nil, fmt.Errorf("go list: %v\n%s", err, stderr.String())
	}
	pkgs := map[string]*listPkg{}
	dec := json.NewDecoder(bytes.NewReader(b))
	for {
		var p listPkg
		if err := dec.Decode(&p); err == io.EOF {
			break
		} else if err != nil {
			return nil, err
		}
		pp := p
		pkgs[p.ImportPath] = &pp
	}
	fset := token.NewFileSet()
	imp := importer.ForCompiler(fset, "gc", func(path string) (io.ReadCloser, error) {
		p := pkgs[path]
		if p == nil || p.Export == "" {
			return nil, fmt.Errorf("no export data for %s", path)
		}
		return os.Open(p.Export)
	})
	overlay := map[string]string{}
	var sites []Site
	nextID := 1
	for _, path := range []string{"github.com/google/wire/internal/wire", "github.com/google/wire/cmd/wire"} {
		lp := pkgs[path]
		if lp == nil {
			return nil, fmt.Errorf("package %s not found", path)
		}
		var files []*ast.File
		srcs := map[*ast.File][]byte{}
		names := map[*ast.File]string{}
		for _, gf := range lp.GoFiles {
			full := filepath.Join(lp.Dir, gf)
			src, err := os.ReadFile(full)
			if err != nil {
				return nil, err
			}
			f, err := parser.ParseFile(fset, full, src, parser.ParseComments)
			if err != nil {
				return nil, err
			}
			files = append(files, f)
			srcs[f] = src
			names[f] = full
		}
		info := &types.Info{Types: map[ast.Expr]types.TypeAndValue{}}
		conf := types.Config{Importer: imp}
		tpkg, err := conf.Check(path, fset, files, info)
		if err != nil {
			return nil, fmt.Errorf("type-checking %s: %v", path, err)
		}
		qual := func(p *types.Package) string {
			if p == tpkg {
				return ""
			}
			return p.Name()
		}
		tag := lp.Name
		for _, f := range files {
			type edit struct {
				start, end int
				text       string
			}
			var edits []edit
			ast.Inspect(f, func(n ast.Node) bool {
				rs, ok := n.(*ast.RangeStmt)
				if !ok {
					return true
				}
				tv, ok := info.Types[rs.X]
				if !ok {
					return true
				}
				mt, ok := tv.Type.Underlying().(*types.Map)
				if !ok {
					return true
				}
				src := srcs[f]
				off := func(p token.Pos) int { return fset.Position(p).Offset }
				xText := string(src[off(rs.X.Pos()):off(rs.X.End())])
				kt, vt := types.TypeString(mt.Key(), qual), types.TypeString(mt.Elem(), qual)
				id := nextID
				nextID++
				sites = append(sites, Site{ID: id, Pkg: path, Pos: fmt.Sprintf("%s:%d", filepath.Base(names[f]), fset.Position(rs.Pos()).Line), Expr: xText, Key: kt, Val: vt})
				asg := ":="
				if rs.Tok == token.ASSIGN {
					asg = "="
				}
				var body strings.Builder
				if id, ok := rs.Key.(*ast.Ident); ok && id.Name != "_" {
					fmt.Fprintf(&body, " %s %s verifE.K.(%s);", id.Name, asg, kt)
				}
				if rs.Value != nil {
					if id, ok := rs.Value.(*ast.Ident); ok && id.Name != "_" {
						fmt.Fprintf(&body, " %s %s verifE.V.(%s);", id.Name, asg, vt)
					}
				}
				hdr := fmt.Sprintf("for _, verifE := range verifOrder(%d, %s) { _ = verifE;%s", id, xText, body.String())
				edits = append(edits, edit{off(rs.For), off(rs.Body.Lbrace) + 1, hdr})
				return true
			})
			if len(edits) == 0 {
				continue
			}
			sort.Slice(edits, func(i, j int) bool { return edits[i].start > edits[j].start })
			src := append([]byte{}, srcs[f]...)
			for _, e := range edits {
				src = append(append(append([]byte{}, src[:e.start]...), []byte(e.text)...), src[e.end:]...)
			}
			dst := filepath.Join(workDir, tag+"_"+filepath.Base(names[f]))
			if err := os.WriteFile(dst, src, 0o644); err != nil {
				return nil, err
			}
			overlay[names[f]] = dst
		}
		hook := ""
		if lp.Name == "wire" {
			hook = "\nfunc init() {\n\ttypeutil.VerifPerm = func(n int) []int { return verifPermTag(\"typeutil\", 0, n) }\n}\n"
		}
		helper := strings.ReplaceAll(strings.ReplaceAll(strings.ReplaceAll(helperTmpl, "PKGNAME", lp.Name), "PKGTAG", tag), "HOOKINIT", hook)
		if lp.Name == "wire" {
			helper = strings.Replace(helper, "import (\n", "import (\n\t\"golang.org/x/tools/go/types/typeutil\"\n", 1)
		}
		hp := filepath.Join(workDir, tag+"_verif_order.go")
		os.WriteFile(hp, []byte(helper), 0o644)
		overlay[filepath.Join(lp.Dir, "verif_order_generated.go")] = hp
	}
	// typeutil.Map.Iterate
	tu := pkgs["golang.org/x/tools/go/types/typeutil"]
	if tu == nil {
		return nil, fmt.Errorf("typeutil not among wire's dependencies")
	}
	mapGo := filepath.Join(tu.Dir, "map.go")
	src, err := os.ReadFile(mapGo)
	if err != nil {
		return nil, err
	}
	const orig = `		for _, bucket := range m.table {
			for _, e := range bucket {
				if e.key != nil {
					f(e.key, e.value)
				}
			}
		}`
	const repl = `		var verifEs []entry
		var verifKs []string
		for _, bucket := range m.table {
			for _, e := range bucket {
				if e.key != nil {
					verifEs = append(verifEs, e)
					verifKs = append(verifKs, types.TypeString(e.key, nil))
				}
			}
		}
		// stable insertion sort by type string (no new imports in this package)
		for i := 1; i < len(verifEs); i++ {
			for j := i; j > 0 && verifKs[j] < verifKs[j-1]; j-- {
				verifEs[j], verifEs[j-1] = verifEs[j-1], verifEs[j]
				verifKs[j], verifKs[j-1] = verifKs[j-1], verifKs[j]
			}
		}
		if VerifPerm != nil {
			for _, i := range VerifPerm(len(verifEs)) {
				f(verifEs[i].key, verifEs[i].value)
			}
		} else {
			for _, e := range verifEs {
				f(e.key, e.value)
			}
		}`
	if !bytes.Contains(src, []byte(orig)) {
		return nil, fmt.Errorf("typeutil/map.go (%s) does not have the expected Iterate body; the pinned x/tools version changed", tu.Dir)
	}
	src = bytes.Replace(src, []byte(orig), []byte(repl), 1)
	src = append(src, []byte("\n// VerifPerm, when set, prescribes the order in which Iterate visits its canonically sorted entries.\nvar VerifPerm func(n int) []int\n")...)
	dst := filepath.Join(workDir, "typeutil_map.go")
	os.WriteFile(dst, src, 0o644)
	overlay[mapGo] = dst
	sites = append(sites, Site{ID: 0, Pkg: "golang.org/x/tools/go/types/typeutil", Pos: "map.go:Iterate", Expr: "m.table", Key: "types.Type", Val: "interface{}"})

	ov, _ := json.MarshalIndent(map[string]interface{}{"Replace": overlay}, "", " ")
	ovPath := filepath.Join(workDir, "overlay.json")
	os.WriteFile(ovPath, ov, 0o644)
	bc := exec.Command("go", "build", "-tags", "verif", "-overlay", ovPath, "-o", out, "./cmd/wire")
	bc.Dir = repo
	bc.Env = env
	if outb, err := bc.CombinedOutput(); err != nil {
		return nil, fmt.Errorf("building instrumented wire: %v\n%s", err, outb)
	}
	return sites, nil
}
