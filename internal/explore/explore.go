// Package explore is the stateless choice-tree explorer: a case generator is an
// ordinary function that calls Ctx.Choose wherever the property quantifies; the
// explorer replays a choice prefix, takes choice 0 (the default, simplest letter)
// afterwards, and then explores every alternative at every later point (DFS).
// A non-zero choice is a deviation; exploration can be bounded by the number of
// deviations (iterative deviation bounding) or run as the full product.
package explore

import (
	"fmt"
	"strings"
)

// Ctx is handed to the generator for one execution.
type Ctx struct {
	prefix  []int
	pos     int
	labels  []string
	ns      []int
	choices []int
	skipped bool
}

// Choose returns a value in [0,n). Label names the choice point (used in case ids).
func (c *Ctx) Choose(label string, n int) int {
	if n <= 0 {
		panic("explore: Choose with n<=0 at " + label)
	}
	v := 0
	if c.pos < len(c.prefix) {
		v = c.prefix[c.pos]
		if v >= n {
			panic(fmt.Sprintf("explore: replay divergence at %s: choice %d out of range %d", label, v, n))
		}
	}
	c.pos++
	c.labels = append(c.labels, label)
	c.ns = append(c.ns, n)
	c.choices = append(c.choices, v)
	return v
}

// Bool is Choose(label,2)==1.
func (c *Ctx) Bool(label string) bool { return c.Choose(label, 2) == 1 }

// Skip marks this assignment as inexpressible (counted, not a case).
func (c *Ctx) Skip() { c.skipped = true }

// ID is the canonical case id suffix: label=choice for every non-default choice.
func (c *Ctx) ID() string {
	var sb strings.Builder
	for i, v := range c.choices {
		if v != 0 {
			if sb.Len() > 0 {
				sb.WriteByte('/')
			}
			fmt.Fprintf(&sb, "%s=%d", c.labels[i], v)
		}
	}
	if sb.Len() == 0 {
		return "default"
	}
	return sb.String()
}

// Deviations is the number of non-default choices taken.
func (c *Ctx) Deviations() int {
	d := 0
	for _, v := range c.choices {
		if v != 0 {
			d++
		}
	}
	return d
}

// Stats reports what an exploration covered.
type Stats struct {
	Executions int // generator runs
	Skipped    int // assignments the generator declared inexpressible
	Points     int // choice points met in total
	MaxDepth   int
	Bound      int // deviation bound used (-1 = full product)
}

// Run explores gen exhaustively. bound<0 means the full product of all choices;
// otherwise all assignments with at most bound non-default choices.
// visit is called once per complete, non-skipped execution.
func Run(bound int, gen func(c *Ctx), visit func(c *Ctx)) Stats {
	st := Stats{Bound: bound}
	var rec func(prefix []int, devs int)
	rec = func(prefix []int, devs int) {
		c := &Ctx{prefix: prefix}
		gen(c)
		if c.pos < len(prefix) {
			panic("explore: replay divergence: generator met fewer choice points than the prefix")
		}
		st.Executions++
		st.Points += len(c.choices)
		if len(c.choices) > st.MaxDepth {
			st.MaxDepth = len(c.choices)
		}
		if c.skipped {
			st.Skipped++
		} else {
			visit(c)
		}
		if bound >= 0 && devs >= bound {
			return
		}
		for i := len(prefix); i < len(c.choices); i++ {
			for alt := 1; alt < c.ns[i]; alt++ {
				np := make([]int, i+1)
				copy(np, c.choices[:i])
				np[i] = alt
				rec(np, devs+1)
			}
		}
	}
	rec(nil, 0)
	return st
}

// Map returns label -> choice for this execution (labels must be unique per execution).
func (c *Ctx) Map() map[string]int {
	m := make(map[string]int, len(c.choices))
	for i, l := range c.labels {
		m[l] = c.choices[i]
	}
	return m
}
