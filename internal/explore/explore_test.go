package explore

import "testing"

func TestFullProductAndBound(t *testing.T) {
	gen := func(c *Ctx) {
		a := c.Choose("a", 3)
		if a == 2 {
			c.Choose("only-when-a2", 2)
		}
		c.Choose("b", 2)
	}
	n := 0
	st := Run(-1, gen, func(c *Ctx) { n++ })
	// a in {0,1}: 2*2 = 4; a == 2: 2*2 = 4
	if n != 8 || st.Executions != 8 {
		t.Fatalf("full product: %d cases, %d executions", n, st.Executions)
	}
	seen := map[string]bool{}
	Run(1, gen, func(c *Ctx) {
		if c.Deviations() > 1 {
			t.Errorf("bound exceeded: %s", c.ID())
		}
		if seen[c.ID()] {
			t.Errorf("duplicate %s", c.ID())
		}
		seen[c.ID()] = true
	})
	// default, a=1, a=2, b=1 (a=2 with its extra point at default)
	if len(seen) != 4 {
		t.Fatalf("bound 1: %v", seen)
	}
}
