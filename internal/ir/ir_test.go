package ir

import "testing"

func TestParseDRoundTrip(t *testing.T) {
	for _, s := range []string{"#5", "i:#7", "nil", "[]", "[#1,#2]", "&#3@4", "{A:#1,B:&{C:nil}@2}", "i:{F:#1}", "#-1"} {
		d, err := ParseD(s)
		if err != nil {
			t.Fatalf("%s: %v", s, err)
		}
		if d.String() != s {
			t.Errorf("round trip %q -> %q", s, d.String())
		}
	}
}

func TestPointerUnification(t *testing.T) {
	u := NewPtrUnifier()
	exp := &D{K: 'P', Sub: &D{K: 'L', ID: 1}, Src: "fn:P"}
	o1, _ := ParseD("&#1@3")
	o2, _ := ParseD("&#1@4")
	if err := u.Match(exp, o1); err != nil {
		t.Fatal(err)
	}
	if err := u.Match(exp, o2); err == nil {
		t.Fatal("a second construction must not unify with the first")
	}
}

func TestModelVerdicts(t *testing.T) {
	b := NewBuilder()
	p := b.Root
	a, c := b.Leaf(p, "A"), b.Leaf(p, "C")
	i := b.Iface(p, "I")
	pa := FuncItem(&Func{Pkg: p, Name: "PA", Out: a})
	pc := FuncItem(&Func{Pkg: p, Name: "PC", Params: []*Type{a, i}, Out: c})
	m := NewModel()
	// missing interface: an implementing type alone does not satisfy it
	impl := b.Leaf(p, "Impl")
	impl.Impls = []*Type{i}
	pi := FuncItem(&Func{Pkg: p, Name: "PI", Out: impl})
	w := m.Solve(&Injector{Name: "X", Out: c, Items: []*Item{pa, pc, pi}})
	if w.Accepted() {
		t.Fatal("interface without binding must be missing")
	}
	w = NewModel().Solve(&Injector{Name: "X", Out: c, Items: []*Item{pa, pc, pi, BindItem(i, impl)}})
	if !w.Accepted() || len(w.Funcs) != 3 {
		t.Fatalf("bound program must be accepted: %v", w.Reasons)
	}
	// conflict and cycle
	w = NewModel().Solve(&Injector{Name: "X", Out: a, Items: []*Item{pa, FuncItem(&Func{Pkg: p, Name: "PA2", Out: a})}})
	if w.Accepted() || w.Reasons[0].Class != "conflict" {
		t.Fatalf("conflict expected: %v", w.Reasons)
	}
	x, y := b.Leaf(p, "X"), b.Leaf(p, "Y")
	w = NewModel().Solve(&Injector{Name: "X", Out: x, Items: []*Item{FuncItem(&Func{Pkg: p, Name: "PX", Params: []*Type{y}, Out: x}), FuncItem(&Func{Pkg: p, Name: "PY", Params: []*Type{x}, Out: y})}})
	found := false
	for _, r := range w.Reasons {
		if r.Class == "cycle" {
			found = true
		}
	}
	if !found {
		t.Fatalf("cycle expected: %v", w.Reasons)
	}
	// pointer receiver: the value type does not implement
	pr := b.Leaf(p, "PR")
	pr.PtrRecv = true
	pr.Impls = []*Type{i}
	if Implements(pr, i) || !Implements(Ptr(pr), i) {
		t.Fatal("method-set rule")
	}
}
