// Package ir is the program IR (data, not text), its renderer to Go source,
// the independent reference model of Wire's documented semantics, and the
// trace checker that compares observed executions with the model's wiring.
package ir

import (
	"fmt"
	"reflect"
)

// Pkg is a package of a case. Rel "" is the root (injector) package.
type Pkg struct {
	Name string
	Rel  string
}

func (p *Pkg) Path() string {
	if p.Rel == "" {
		return "{{ROOT}}"
	}
	return "{{ROOT}}/" + p.Rel
}

type TKind int

const (
	KLeaf  TKind = iota // named struct{ ID int } with VDesc(); identity-carrying
	KInt                // named int; value is the identity
	KIface              // named interface{ VDesc() string; Is<Name>() }
	KAgg                // named struct with Fields (wire.Struct / FieldsOf target)
	KPtr                // *Elem
	KSlice              // []Elem
	KAlias              // type Name = Elem
	KBasic              // the predeclared type int (identity = value)
	KRaw                // a type given as Go source text (Name) with an explicit identity key (RawKey) and value expression (RawValue)
)

type Field struct {
	Name     string
	T        *Type
	Tag      string
	Embedded bool // written as an embedded field; Name must be the type's name
}

type Type struct {
	Kind    TKind
	Pkg     *Pkg
	Name    string
	Elem    *Type
	Fields  []*Field
	PtrRecv bool    // KLeaf/KAgg: methods have pointer receivers
	Impls   []*Type // KLeaf/KAgg: interfaces implemented
	Embeds  []*Type // KIface: embedded interfaces
	RawKey   string // KRaw: type identity (two spellings of one type share it)
	RawValue string // KRaw: an expression of the type
	Partial bool    // KLeaf/KAgg: implements only the explicitly declared methods of its Impls, not those of embedded interfaces
	Bare    bool    // KIface: declares no method of its own: its method set is exactly that of its embedded interfaces
}

func Ptr(t *Type) *Type   { return &Type{Kind: KPtr, Elem: t} }
func BasicInt() *Type     { return &Type{Kind: KBasic, Name: "int"} }
func Slice(t *Type) *Type { return &Type{Kind: KSlice, Elem: t} }

// Key is the type identity (alias expanded); it is also how wire prints the type.
func (t *Type) Key() string {
	switch t.Kind {
	case KPtr:
		return "*" + t.Elem.Key()
	case KSlice:
		return "[]" + t.Elem.Key()
	case KAlias:
		return t.Elem.Key()
	case KBasic:
		return "int"
	case KRaw:
		return t.RawKey
	default:
		return t.Pkg.Path() + "." + t.Name
	}
}

// Strip removes alias layers.
func (t *Type) Strip() *Type {
	for t.Kind == KAlias {
		t = t.Elem
	}
	return t
}

// IKind is the kind of one argument of wire.Build / wire.NewSet.
type IKind int

const (
	IFunc IKind = iota
	IStruct
	IStructLit // legacy S{} form
	IValue
	IIfaceValue
	IBind
	IFieldsOf
	ISetRef
	IInlineSet
)

func (k IKind) String() string {
	return [...]string{"func", "struct", "structlit", "value", "ifacevalue", "bind", "fieldsof", "setref", "inlineset"}[k]
}

type Func struct {
	Pkg      *Pkg
	Name     string
	Params   []*Type
	Variadic bool // last param is ...Elem (Params[last] is the slice type)
	Out      *Type
	Cleanup  bool
	Err      bool
	RawSig   string // if set, the whole "(params) results" text is taken verbatim and the body panics (C09)
	Illegal  bool   // RawSig is a shape the documented rules forbid
	Extra    string // extra statements at the start of the body (may use a0, a1, ... and vt.)
}

// TraceName identifies the function in traces (unique across packages).
func (f *Func) TraceName() string {
	if f.Pkg != nil && f.Pkg.Rel != "" {
		return f.Pkg.Rel + "." + f.Name
	}
	return f.Name
}

type Item struct {
	Kind      IKind
	Fn        *Func
	T         *Type    // IStruct/IStructLit/IFieldsOf: the KAgg type; IValue: value type; IIfaceValue/IBind: the interface
	Names     []string // IStruct: field names or ["*"]; IFieldsOf: field names
	Conc      *Type    // IBind: concrete type; IIfaceValue: dynamic type of the value
	PtrParent bool     // IFieldsOf: new(*S) form
	BindNoPtr bool     // IBind: write the second argument as new(C) where Conc is *C? (see render)
	Set       *Set
	ValID     int // IValue/IIfaceValue: identity of the value
	Raw       string
}

type Set struct {
	Pkg     *Pkg
	Name    string
	Items   []*Item
	AliasOf *Set // rendered as `var Name = <AliasOf>` (Items must be the single reference to it)
}

type Param struct {
	Name string
	T    *Type
}

type Injector struct {
	Name     string
	Params   []Param
	Variadic bool
	Out      *Type
	Cleanup  bool
	Err      bool
	Items    []*Item
	File     string // default wire.go
	Doc      string
	RawSig   string // verbatim result list (C09)
	After    string // raw declarations written after this injector in its file (copied to wire_gen.go by wire)
	ResultNames []string // names of the results in the injector declaration (all or none)
}

// Program is one case.
type Program struct {
	Root      *Pkg
	Injectors []*Injector
	// Extra declarations that must exist even if nothing references them.
	ExtraTypes []*Type
	ExtraFuncs []*Func
	ExtraSets  []*Set
	Hist       int // history length for the fault enumerator (0/1: single failures only)
	ExtraDecl  string // raw declarations appended to the root package's defs.go (scope pollution)
	ExtraFiles       map[string]string // raw files added to the case as they are
	InjectorImports  []*Pkg            // packages every injector file imports (so that Injector.After may refer to them by their user alias)
	ReverseDecls     bool              // declare types, functions and sets in the reverse of the usual order (uses before declarations)
	WireImport       int    // how user files import wire: 0 plain, 1 under the alias w, 2 dot import
	UserImportPrefix string // user files import the case's own packages under this prefix + package name (so that package names may collide with the user's identifiers)
	PairSets   bool   // declare consecutive named sets of a package pairwise: var A, B = wire.NewSet(..), wire.NewSet(..)
}

// ---- small constructors used by families ----

type Builder struct {
	Root *Pkg
	Lib  *Pkg
	n    int
}

func NewBuilder() *Builder {
	return &Builder{Root: &Pkg{Name: "p", Rel: ""}, Lib: &Pkg{Name: "lib", Rel: "lib"}}
}

func (b *Builder) Leaf(p *Pkg, name string) *Type { return &Type{Kind: KLeaf, Pkg: p, Name: name} }
func (b *Builder) Int(p *Pkg, name string) *Type  { return &Type{Kind: KInt, Pkg: p, Name: name} }
func (b *Builder) Iface(p *Pkg, name string, embeds ...*Type) *Type {
	return &Type{Kind: KIface, Pkg: p, Name: name, Embeds: embeds}
}
func (b *Builder) Agg(p *Pkg, name string, fields ...*Field) *Type {
	return &Type{Kind: KAgg, Pkg: p, Name: name, Fields: fields}
}
func (b *Builder) Alias(p *Pkg, name string, t *Type) *Type {
	return &Type{Kind: KAlias, Pkg: p, Name: name, Elem: t}
}

func FuncItem(f *Func) *Item { return &Item{Kind: IFunc, Fn: f} }
func StructItem(t *Type, names ...string) *Item {
	return &Item{Kind: IStruct, T: t, Names: names}
}
func ValueItem(t *Type, id int) *Item { return &Item{Kind: IValue, T: t, ValID: id} }
func IfaceValueItem(iface, dyn *Type, id int) *Item {
	return &Item{Kind: IIfaceValue, T: iface, Conc: dyn, ValID: id}
}
func BindItem(iface, conc *Type) *Item { return &Item{Kind: IBind, T: iface, Conc: conc} }
func FieldsOfItem(agg *Type, ptrParent bool, names ...string) *Item {
	return &Item{Kind: IFieldsOf, T: agg, PtrParent: ptrParent, Names: names}
}
func SetRef(s *Set) *Item    { return &Item{Kind: ISetRef, Set: s} }
func InlineSet(s *Set) *Item { return &Item{Kind: IInlineSet, Set: s} }

func (it *Item) String() string {
	switch it.Kind {
	case IFunc:
		return "func " + it.Fn.Name
	case IStruct, IStructLit:
		return fmt.Sprintf("struct %s%v", it.T.Name, it.Names)
	case IValue:
		return "value " + it.T.Key()
	case IIfaceValue:
		return "ifacevalue " + it.T.Key()
	case IBind:
		return "bind " + it.T.Key() + "<-" + it.Conc.Key()
	case IFieldsOf:
		return fmt.Sprintf("fieldsof %s%v ptr=%v", it.T.Name, it.Names, it.PtrParent)
	case ISetRef:
		return "set " + it.Set.Name
	case IInlineSet:
		return "inline-set"
	}
	return "?"
}

// FieldByName finds a field of an agg type.
func (t *Type) FieldByName(n string) *Field {
	for _, f := range t.Fields {
		if f.Name == n {
			return f
		}
	}
	return nil
}

func prevented(tag string) bool {
	// documented: a field tagged `wire:"-"` (struct tag syntax: key wire, value -)
	return reflect.StructTag(tag).Get("wire") == "-"
}
