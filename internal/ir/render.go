package ir

import (
	"fmt"
	"sort"
	"strings"
)

const wirePath = "github.com/google/wire"
const vtPath = "example.com/m/vt"

// file accumulates one Go source file and the imports it turned out to need.
type file struct {
	pkg     *Pkg
	sb      strings.Builder
	imports map[string]string // path -> alias ("" = default)
	r       *renderer
}

func (f *file) p(format string, a ...interface{}) { fmt.Fprintf(&f.sb, format, a...) }

// q returns the qualifier ("" or "alias.") for referring to package p from this file.
func (f *file) q(p *Pkg) string {
	if p == f.pkg {
		return ""
	}
	alias := f.r.alias[p]
	f.imports[p.Path()] = alias
	return alias + "."
}
func (f *file) vt() string   { f.imports[vtPath] = "vt"; return "vt." }
func (f *file) wire() string {
	switch f.r.prog.WireImport {
	case 1:
		f.imports[wirePath] = "w"
		return "w."
	case 2:
		f.imports[wirePath] = "."
		return ""
	}
	f.imports[wirePath] = "wire"
	return "wire."
}

func (f *file) render(header string) string {
	var sb strings.Builder
	sb.WriteString(header)
	fmt.Fprintf(&sb, "package %s\n\n", f.pkg.Name)
	if len(f.imports) > 0 {
		paths := make([]string, 0, len(f.imports))
		for p := range f.imports {
			paths = append(paths, p)
		}
		sort.Strings(paths)
		sb.WriteString("import (\n")
		for _, p := range paths {
			fmt.Fprintf(&sb, "\t%s %q\n", f.imports[p], p)
		}
		sb.WriteString(")\n\n")
	}
	sb.WriteString(f.sb.String())
	return sb.String()
}

type renderer struct {
	prog  *Program
	pkgs  []*Pkg
	alias map[*Pkg]string
	types []*Type // named types in first-visit order
	seenT map[*Type]bool
	funcs []*Func
	seenF map[*Func]bool
	sets  []*Set
	seenS map[*Set]bool
}

func (r *renderer) addPkg(p *Pkg) {
	for _, x := range r.pkgs {
		if x == p {
			return
		}
	}
	r.pkgs = append(r.pkgs, p)
}

func (r *renderer) visitType(t *Type) {
	if t == nil {
		return
	}
	switch t.Kind {
	case KPtr, KSlice:
		r.visitType(t.Elem)
		return
	case KBasic, KRaw:
		return
	}
	if r.seenT[t] {
		return
	}
	r.seenT[t] = true
	r.addPkg(t.Pkg)
	for _, f := range t.Fields {
		r.visitType(f.T)
	}
	for _, e := range t.Embeds {
		r.visitType(e)
	}
	for _, e := range t.Impls {
		r.visitType(e)
	}
	if t.Kind == KAlias {
		r.visitType(t.Elem)
	}
	r.types = append(r.types, t)
}

func (r *renderer) visitFunc(f *Func) {
	if r.seenF[f] {
		return
	}
	r.seenF[f] = true
	r.addPkg(f.Pkg)
	for _, p := range f.Params {
		r.visitType(p)
	}
	r.visitType(f.Out)
	r.funcs = append(r.funcs, f)
}

func (r *renderer) visitItems(items []*Item) {
	for _, it := range items {
		switch it.Kind {
		case IFunc:
			r.visitFunc(it.Fn)
		case ISetRef:
			r.visitSet(it.Set, true)
		case IInlineSet:
			r.visitSet(it.Set, false)
		default:
			r.visitType(it.T)
			r.visitType(it.Conc)
		}
	}
}

func (r *renderer) visitSet(s *Set, named bool) {
	if r.seenS[s] {
		return
	}
	r.seenS[s] = true
	r.visitItems(s.Items)
	if named {
		r.addPkg(s.Pkg)
		r.sets = append(r.sets, s)
	}
}

// NamedSets lists every named provider set declared by the program (as rendered).
func NamedSets(prog *Program) []*Set {
	r := &renderer{prog: prog, alias: map[*Pkg]string{}, seenT: map[*Type]bool{}, seenF: map[*Func]bool{}, seenS: map[*Set]bool{}}
	for _, inj := range prog.Injectors {
		r.visitItems(inj.Items)
	}
	for _, s := range prog.ExtraSets {
		r.visitSet(s, true)
	}
	return r.sets
}

// Render produces the files of the case (relative path -> content).
// withDriver adds driver.go to the root package.
func Render(prog *Program, withDriver bool) map[string]string {
	r := &renderer{prog: prog, alias: map[*Pkg]string{}, seenT: map[*Type]bool{}, seenF: map[*Func]bool{}, seenS: map[*Set]bool{}}
	r.addPkg(prog.Root)
	for _, inj := range prog.Injectors {
		for _, p := range inj.Params {
			r.visitType(p.T)
		}
		r.visitType(inj.Out)
		r.visitItems(inj.Items)
	}
	for _, t := range prog.ExtraTypes {
		r.visitType(t)
	}
	for _, f := range prog.ExtraFuncs {
		r.visitFunc(f)
	}
	for _, s := range prog.ExtraSets {
		r.visitSet(s, true)
	}
	for _, p := range prog.InjectorImports {
		r.addPkg(p)
	}
	if prog.ReverseDecls {
		for i, j := 0, len(r.types)-1; i < j; i, j = i+1, j-1 {
			r.types[i], r.types[j] = r.types[j], r.types[i]
		}
		for i, j := 0, len(r.funcs)-1; i < j; i, j = i+1, j-1 {
			r.funcs[i], r.funcs[j] = r.funcs[j], r.funcs[i]
		}
		for i, j := 0, len(r.sets)-1; i < j; i, j = i+1, j-1 {
			r.sets[i], r.sets[j] = r.sets[j], r.sets[i]
		}
	}
	// import aliases: package name unless it clashes
	used := map[string]int{}
	for _, p := range r.pkgs {
		used[p.Name]++
		if used[p.Name] == 1 {
			r.alias[p] = prog.UserImportPrefix + p.Name
		} else {
			r.alias[p] = fmt.Sprintf("%s%s%d", prog.UserImportPrefix, p.Name, used[p.Name])
		}
	}
	out := map[string]string{}
	for _, p := range r.pkgs {
		raw := false
		for _, q := range prog.InjectorImports {
			if q == p {
				raw = true // declared by prog.ExtraFiles
			}
		}
		if raw {
			continue
		}
		f := &file{pkg: p, imports: map[string]string{}, r: r}
		r.renderDefs(f)
		out[join(p.Rel, "defs.go")] = f.render("")
	}
	// injector templates, grouped by file
	byFile := map[string][]*Injector{}
	var fileNames []string
	for _, inj := range prog.Injectors {
		fn := inj.File
		if fn == "" {
			fn = "wire.go"
		}
		if byFile[fn] == nil {
			fileNames = append(fileNames, fn)
		}
		byFile[fn] = append(byFile[fn], inj)
	}
	for _, fn := range fileNames {
		f := &file{pkg: prog.Root, imports: map[string]string{}, r: r}
		for _, inj := range byFile[fn] {
			r.renderInjector(f, inj)
		}
		out[fn] = f.render("//go:build wireinject\n// +build wireinject\n\n")
	}
	if withDriver {
		f := &file{pkg: prog.Root, imports: map[string]string{}, r: r}
		r.renderDriver(f)
		out["driver.go"] = f.render("")
	}
	for p, c := range prog.ExtraFiles {
		out[p] = c
	}
	return out
}

func join(rel, name string) string {
	if rel == "" {
		return name
	}
	return rel + "/" + name
}

// ---- type expressions ----

func (r *renderer) typeExpr(f *file, t *Type) string {
	switch t.Kind {
	case KPtr:
		return "*" + r.typeExpr(f, t.Elem)
	case KSlice:
		return "[]" + r.typeExpr(f, t.Elem)
	case KBasic:
		return "int"
	case KRaw:
		return t.Name
	default:
		return f.q(t.Pkg) + t.Name
	}
}

// descFunc returns a func value expression of type func(T) string.
func (r *renderer) descFunc(f *file, t *Type) string {
	switch t.Kind {
	case KPtr, KSlice:
		return fmt.Sprintf("func(e %s) string { return %s }", r.typeExpr(f, t), r.descExpr(f, t, "e"))
	case KAlias:
		return r.descFunc(f, t.Elem)
	case KBasic:
		return fmt.Sprintf("func(e int) string { return \"#\" + %sItoa(e) }", f.vt())
	case KRaw:
		return fmt.Sprintf("func(e %s) string { return \"#0\" }", t.Name)
	default:
		return f.q(t.Pkg) + "Desc_" + t.Name
	}
}

// descExpr returns a string expression describing x of type t.
func (r *renderer) descExpr(f *file, t *Type, x string) string {
	switch t.Kind {
	case KPtr:
		return fmt.Sprintf("%sPtr(%s, %s)", f.vt(), x, r.descFunc(f, t.Elem))
	case KSlice:
		return fmt.Sprintf("%sSlice(%s, %s)", f.vt(), x, r.descFunc(f, t.Elem))
	case KAlias:
		return r.descExpr(f, t.Elem, x)
	case KBasic:
		return fmt.Sprintf("(\"#\" + %sItoa(%s))", f.vt(), x)
	case KRaw:
		return "\"#0\""
	default:
		return fmt.Sprintf("%sDesc_%s(%s)", f.q(t.Pkg), t.Name, x)
	}
}

// mintExpr returns an expression constructing a value of type t carrying identity id (a Go int expression).
func (r *renderer) mintExpr(f *file, t *Type, id string) string {
	switch t.Kind {
	case KLeaf:
		return fmt.Sprintf("%s%s{ID: %s}", f.q(t.Pkg), t.Name, id)
	case KInt:
		return fmt.Sprintf("%s%s(%s)", f.q(t.Pkg), t.Name, id)
	case KBasic:
		return fmt.Sprintf("int(%s)", id)
	case KRaw:
		return t.RawValue
	case KIface:
		return fmt.Sprintf("%s%s(&%s%sAuto{ID: %s})", f.q(t.Pkg), t.Name, f.q(t.Pkg), t.Name, id)
	case KAgg:
		var parts []string
		for _, fl := range t.Fields {
			parts = append(parts, fmt.Sprintf("%s: %s", fl.Name, r.mintExpr(f, fl.T, id)))
		}
		return fmt.Sprintf("%s%s{%s}", f.q(t.Pkg), t.Name, strings.Join(parts, ", "))
	case KPtr:
		e := t.Elem.Strip()
		if e.Kind == KLeaf || e.Kind == KAgg {
			return "&" + r.mintExpr(f, e, id)
		}
		return fmt.Sprintf("func() %s { v := %s; return &v }()", r.typeExpr(f, t), r.mintExpr(f, t.Elem, id))
	case KSlice:
		return fmt.Sprintf("%s{%s}", r.typeExpr(f, t), r.mintExpr(f, t.Elem, id))
	case KAlias:
		return r.mintExpr(f, t.Elem, id)
	}
	panic("mintExpr")
}

// valueExpr is mintExpr restricted to forms wire.Value accepts (no calls): used for values.
func (r *renderer) valueExpr(f *file, t *Type, id int) string {
	ids := fmt.Sprint(id)
	s := t.Strip()
	switch s.Kind {
	case KPtr:
		e := s.Elem.Strip()
		if e.Kind == KLeaf || e.Kind == KAgg {
			return "&" + r.mintExpr(f, e, ids)
		}
		panic("valueExpr: pointer to non-struct")
	default:
		return r.mintExpr(f, s, ids)
	}
}

// ZeroDesc is the description of the zero value of t.
func ZeroDesc(t *Type) string { return zeroD(t).String() }

// ---- declarations ----

func (r *renderer) markers(t *Type, acc map[string]bool) {
	// all marker methods an implementation of interface t needs
	if !t.Bare {
		acc["Is"+t.Name] = true
	}
	for _, e := range t.Embeds {
		r.markers(e, acc)
	}
}

func (r *renderer) renderDefs(f *file) {
	p := f.pkg
	for _, t := range r.types {
		if t.Pkg != p {
			continue
		}
		switch t.Kind {
		case KLeaf:
			f.p("type %s struct{ ID int }\n\n", t.Name)
			recv := t.Name
			if t.PtrRecv {
				recv = "*" + t.Name
			}
			f.p("func (x %s) VDesc() string { return \"#\" + %sItoa(x.ID) }\n", recv, f.vt())
			ms := map[string]bool{}
			for _, i := range t.Impls {
				if t.Partial {
					ms["Is"+i.Name] = true
				} else {
					r.markers(i, ms)
				}
			}
			for _, m := range sortedKeys(ms) {
				f.p("func (x %s) %s() {}\n", recv, m)
			}
			f.p("func Desc_%s(x %s) string { return \"#\" + %sItoa(x.ID) }\n\n", t.Name, t.Name, f.vt())
		case KInt:
			f.p("type %s int\n\n", t.Name)
			f.p("func Desc_%s(x %s) string { return \"#\" + %sItoa(int(x)) }\n\n", t.Name, t.Name, f.vt())
		case KIface:
			f.p("type %s interface {\n", t.Name)
			for _, e := range t.Embeds {
				f.p("\t%s\n", r.typeExpr(f, e))
			}
			if t.Bare {
				f.p("}\n\n")
			} else {
				f.p("\tVDesc() string\n\tIs%s()\n}\n\n", t.Name)
			}
			f.p("type %sAuto struct{ ID int }\n\n", t.Name)
			f.p("func (x *%sAuto) VDesc() string { return \"#\" + %sItoa(x.ID) }\n", t.Name, f.vt())
			ms := map[string]bool{}
			r.markers(t, ms)
			for _, m := range sortedKeys(ms) {
				f.p("func (x *%sAuto) %s() {}\n", t.Name, m)
			}
			f.p("func Desc_%s(x %s) string {\n\tif x == nil {\n\t\treturn \"nil\"\n\t}\n\treturn \"i:\" + x.VDesc()\n}\n\n", t.Name, t.Name)
		case KAgg:
			f.p("type %s struct {\n", t.Name)
			for _, fl := range t.Fields {
				tag := ""
				if fl.Tag != "" {
					tag = " `" + fl.Tag + "`"
				}
				if fl.Embedded {
					f.p("\t%s%s\n", r.typeExpr(f, fl.T), tag)
				} else {
					f.p("\t%s %s%s\n", fl.Name, r.typeExpr(f, fl.T), tag)
				}
			}
			f.p("}\n\n")
			if len(t.Impls) > 0 {
				recv := t.Name
				self := "x"
				if t.PtrRecv {
					recv = "*" + t.Name
					self = "*x"
				}
				f.p("func (x %s) VDesc() string { return Desc_%s(%s) }\n", recv, t.Name, self)
				ms := map[string]bool{}
				for _, i := range t.Impls {
					if t.Partial {
						ms["Is"+i.Name] = true
					} else {
						r.markers(i, ms)
					}
				}
				for _, m := range sortedKeys(ms) {
					f.p("func (x %s) %s() {}\n", recv, m)
				}
			}
			f.p("func Desc_%s(x %s) string {\n\treturn \"{\"", t.Name, t.Name)
			for i, fl := range t.Fields {
				sep := ""
				if i > 0 {
					sep = ","
				}
				f.p(" + \"%s%s:\" + %s", sep, fl.Name, r.descExpr(f, fl.T, "x."+fl.Name))
			}
			f.p(" + \"}\"\n}\n\n")
		case KAlias:
			f.p("type %s = %s\n\n", t.Name, r.typeExpr(f, t.Elem))
		}
	}
	for _, fn := range r.funcs {
		if fn.Pkg != p {
			continue
		}
		r.renderFunc(f, fn)
	}
	var mine []*Set
	for _, s := range r.sets {
		if s.Pkg == p {
			mine = append(mine, s)
		}
	}
	for i := 0; i < len(mine); i++ {
		s := mine[i]
		if r.prog.PairSets && i+1 < len(mine) {
			t := mine[i+1]
			f.p("var %s, %s = %sNewSet(%s), %sNewSet(%s)\n\n", s.Name, t.Name, f.wire(), r.itemsExpr(f, s.Items), f.wire(), r.itemsExpr(f, t.Items))
			i++
			continue
		}
		if s.AliasOf != nil {
			f.p("var %s = %s%s\n\n", s.Name, f.q(s.AliasOf.Pkg), s.AliasOf.Name)
			continue
		}
		f.p("var %s = %sNewSet(%s)\n\n", s.Name, f.wire(), r.itemsExpr(f, s.Items))
	}
	if p == r.prog.Root && r.prog.ExtraDecl != "" {
		decl := r.prog.ExtraDecl
		if strings.Contains(decl, "WIRE.") { // the qualifier of the wire package in this file
			decl = strings.ReplaceAll(decl, "WIRE.", f.wire())
		}
		f.p("%s\n", decl)
	}
}

func sortedKeys(m map[string]bool) []string {
	var ks []string
	for k := range m {
		ks = append(ks, k)
	}
	sort.Strings(ks)
	return ks
}

func (r *renderer) renderFunc(f *file, fn *Func) {
	if fn.RawSig != "" {
		f.p("func %s%s {\n\tpanic(\"never called\")\n}\n\n", fn.Name, fn.RawSig)
		return
	}
	var params, descs []string
	for i, pt := range fn.Params {
		name := fmt.Sprintf("a%d", i)
		if fn.Variadic && i == len(fn.Params)-1 {
			params = append(params, fmt.Sprintf("%s ...%s", name, r.typeExpr(f, pt.Elem)))
		} else {
			params = append(params, fmt.Sprintf("%s %s", name, r.typeExpr(f, pt)))
		}
		descs = append(descs, r.descExpr(f, pt, name))
	}
	results := r.typeExpr(f, fn.Out)
	if fn.Cleanup {
		results += ", func()"
	}
	if fn.Err {
		results += ", error"
	}
	if fn.Cleanup || fn.Err {
		results = "(" + results + ")"
	}
	f.p("func %s(%s) %s {\n", fn.Name, strings.Join(params, ", "), results)
	args := ""
	if len(descs) > 0 {
		args = ", " + strings.Join(descs, ", ")
	}
	f.p("\tid, fail := %sCall(%q, %v%s)\n", f.vt(), fn.TraceName(), fn.Err, args)
	if fn.Extra != "" {
		f.vt()
		f.p("\t%s\n", fn.Extra)
	}
	if fn.Err {
		f.p("\tif fail {\n\t\treturn %s", r.mintExpr(f, fn.Out, "-1"))
		if fn.Cleanup {
			f.p(", func() { %sBadCleanup(%q, id) }", f.vt(), fn.TraceName())
		}
		f.p(", %sNewErr(id)\n\t}\n", f.vt())
	} else {
		f.p("\t_ = fail\n")
	}
	f.p("\t_ = id\n")
	f.p("\treturn %s", r.mintExpr(f, fn.Out, "id"))
	if fn.Cleanup {
		f.p(", func() { %sCleanup(%q, id) }", f.vt(), fn.TraceName())
	}
	if fn.Err {
		f.p(", nil")
	}
	f.p("\n}\n\n")
}

func (r *renderer) itemsExpr(f *file, items []*Item) string {
	var parts []string
	for _, it := range items {
		parts = append(parts, r.itemExpr(f, it))
	}
	return strings.Join(parts, ", ")
}

func quoteAll(names []string) string {
	var qs []string
	for _, n := range names {
		qs = append(qs, fmt.Sprintf("%q", n))
	}
	return strings.Join(qs, ", ")
}

func (r *renderer) itemExpr(f *file, it *Item) string {
	if it.Raw != "" {
		return it.Raw
	}
	w := f.wire()
	switch it.Kind {
	case IFunc:
		return f.q(it.Fn.Pkg) + it.Fn.Name
	case IStruct:
		return fmt.Sprintf("%sStruct(new(%s), %s)", w, r.typeExpr(f, it.T), quoteAll(it.Names))
	case IStructLit:
		return r.typeExpr(f, it.T) + "{}"
	case IValue:
		return fmt.Sprintf("%sValue(%s)", w, r.valueExpr(f, it.T, it.ValID))
	case IIfaceValue:
		return fmt.Sprintf("%sInterfaceValue(new(%s), %s)", w, r.typeExpr(f, it.T), r.valueExpr(f, it.Conc, it.ValID))
	case IBind:
		return fmt.Sprintf("%sBind(new(%s), new(%s))", w, r.typeExpr(f, it.T), r.typeExpr(f, it.Conc))
	case IFieldsOf:
		star := ""
		if it.PtrParent {
			star = "*"
		}
		return fmt.Sprintf("%sFieldsOf(new(%s%s), %s)", w, star, r.typeExpr(f, it.T), quoteAll(it.Names))
	case ISetRef:
		return f.q(it.Set.Pkg) + it.Set.Name
	case IInlineSet:
		return fmt.Sprintf("%sNewSet(%s)", w, r.itemsExpr(f, it.Set.Items))
	}
	panic("itemExpr")
}

func (r *renderer) injSig(f *file, inj *Injector, names bool) (params string, results string) {
	var ps []string
	for i, p := range inj.Params {
		t := r.typeExpr(f, p.T)
		if inj.Variadic && i == len(inj.Params)-1 {
			t = "..." + r.typeExpr(f, p.T.Elem)
		}
		if names {
			n := p.Name
			if n == "" {
				n = "_"
			}
			if n == "-" { // unnamed parameter list
				ps = append(ps, t)
			} else {
				ps = append(ps, n+" "+t)
			}
		} else {
			ps = append(ps, t)
		}
	}
	if inj.RawSig != "" {
		return strings.Join(ps, ", "), inj.RawSig
	}
	rn := func(i int) string {
		if names && i < len(inj.ResultNames) {
			return inj.ResultNames[i] + " "
		}
		return ""
	}
	res := rn(0) + r.typeExpr(f, inj.Out)
	k := 1
	if inj.Cleanup {
		res += ", " + rn(k) + "func()"
		k++
	}
	if inj.Err {
		res += ", " + rn(k) + "error"
	}
	if inj.Cleanup || inj.Err || (names && len(inj.ResultNames) > 0) {
		res = "(" + res + ")"
	}
	return strings.Join(ps, ", "), res
}

func (r *renderer) renderInjector(f *file, inj *Injector) {
	ps, res := r.injSig(f, inj, true)
	if inj.Doc != "" {
		f.p("%s\n", inj.Doc)
	}
	f.p("func %s(%s) %s {\n\tpanic(%sBuild(%s))\n}\n\n", inj.Name, ps, res, f.wire(), r.itemsExpr(f, inj.Items))
	if inj.After != "" {
		for _, p := range r.prog.InjectorImports {
			f.q(p)
		}
		f.p("%s\n\n", inj.After)
	}
}

func (r *renderer) renderDriver(f *file) {
	for _, inj := range r.prog.Injectors {
		if inj.RawSig != "" {
			continue
		}
		ps, res := r.injSig(f, inj, false)
		f.p("var _ func(%s) %s = %s\n\n", ps, res, inj.Name)
		f.p("func drive_%s(fail int, scen string) int {\n", inj.Name)
		f.p("\t%sBegin(%q, scen, fail)\n", f.vt(), inj.Name)
		var args []string
		for i, p := range inj.Params {
			f.p("\ta%d := %s\n", i, r.mintExpr(f, p.T, f.vt()+"NewID()"))
			f.p("\t%sArg(%d, %s)\n", f.vt(), i, r.descExpr(f, p.T, fmt.Sprintf("a%d", i)))
			a := fmt.Sprintf("a%d", i)
			if inj.Variadic && i == len(inj.Params)-1 {
				a += "..."
			}
			args = append(args, a)
		}
		lhs := "r"
		if inj.Cleanup {
			lhs += ", cleanup"
		}
		if inj.Err {
			lhs += ", err"
		}
		f.p("\t%s := %s(%s)\n", lhs, inj.Name, strings.Join(args, ", "))
		if !inj.Cleanup {
			f.p("\tvar cleanup func()\n")
		}
		if !inj.Err {
			f.p("\tvar err error\n")
		}
		f.p("\tif err != nil {\n\t\t%sRetErr(err, %s == %q, cleanup == nil)\n\t\t%sX()\n\t} else {\n", f.vt(), r.descExpr(f, inj.Out, "r"), ZeroDesc(inj.Out), f.vt())
		f.p("\t\t%sRetOK(%s, cleanup != nil)\n\t\t%sX()\n\t\tif cleanup != nil {\n\t\t\tcleanup()\n\t\t}\n\t}\n", f.vt(), r.descExpr(f, inj.Out, "r"), f.vt())
		f.p("\t%sDone()\n\treturn %sFailable()\n}\n\n", f.vt(), f.vt())
	}
	f.p("func VerifDrive() {\n\t%sCase(\"{{CASE}}\")\n", f.vt())
	for _, inj := range r.prog.Injectors {
		if inj.RawSig != "" {
			continue
		}
		f.p("\t%sScenarios(drive_%s, %d)\n", f.vt(), inj.Name, r.prog.Hist)
	}
	f.p("}\n")
}
