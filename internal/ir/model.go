package ir

import (
	"fmt"
	"sort"
	"strings"
)

// ---------- value descriptions (trees) ----------

// D is a value description. It mirrors the grammar printed by the traced runtime:
//   #<id> | i:#<id> | nil | [] | [d,...] | &d@<n> | {F:d,...}
type D struct {
	K      byte // 'L' leaf, 'I' interface around a leaf, 'N' nil, 'E' empty slice, 'S' slice, 'P' pointer, 'A' aggregate
	ID     int
	Sub    *D
	Elems  []*D
	Names  []string
	Src    string // expected pointers: which construction this pointer is (identity class)
	Seq    int    // observed pointers: address sequence number
	HasSeq bool
}

func (d *D) String() string {
	switch d.K {
	case 'L':
		return fmt.Sprintf("#%d", d.ID)
	case 'I':
		return "i:" + d.Sub.String()
	case 'N':
		return "nil"
	case 'E':
		return "[]"
	case 'S':
		if len(d.Elems) == 0 {
			return "[e]"
		}
		var ps []string
		for _, e := range d.Elems {
			ps = append(ps, e.String())
		}
		return "[" + strings.Join(ps, ",") + "]"
	case 'P':
		if d.HasSeq {
			return fmt.Sprintf("&%s@%d", d.Sub, d.Seq)
		}
		return fmt.Sprintf("&%s@<%s>", d.Sub, d.Src)
	case 'A':
		var ps []string
		for i, e := range d.Elems {
			ps = append(ps, d.Names[i]+":"+e.String())
		}
		return "{" + strings.Join(ps, ",") + "}"
	}
	return "?"
}

// ParseD parses a description printed by the runtime.
func ParseD(s string) (*D, error) {
	d, rest, err := parseD(s)
	if err != nil {
		return nil, err
	}
	if rest != "" {
		return nil, fmt.Errorf("trailing %q in %q", rest, s)
	}
	return d, nil
}

func parseInt(s string) (int, string, error) {
	i := 0
	if i < len(s) && s[i] == '-' {
		i++
	}
	j := i
	for j < len(s) && s[j] >= '0' && s[j] <= '9' {
		j++
	}
	if j == i {
		return 0, s, fmt.Errorf("number expected at %q", s)
	}
	n := 0
	fmt.Sscanf(s[:j], "%d", &n)
	return n, s[j:], nil
}

func parseD(s string) (*D, string, error) {
	switch {
	case strings.HasPrefix(s, "#"):
		n, rest, err := parseInt(s[1:])
		return &D{K: 'L', ID: n}, rest, err
	case strings.HasPrefix(s, "i:"):
		sub, rest, err := parseD(s[2:])
		return &D{K: 'I', Sub: sub}, rest, err
	case strings.HasPrefix(s, "nil"):
		return &D{K: 'N'}, s[3:], nil
	case strings.HasPrefix(s, "[]"):
		return &D{K: 'E'}, s[2:], nil
	case strings.HasPrefix(s, "[e]"):
		return &D{K: 'S'}, s[3:], nil // empty, not nil
	case strings.HasPrefix(s, "["):
		d := &D{K: 'S'}
		s = s[1:]
		for {
			e, rest, err := parseD(s)
			if err != nil {
				return nil, s, err
			}
			d.Elems = append(d.Elems, e)
			s = rest
			if strings.HasPrefix(s, ",") {
				s = s[1:]
				continue
			}
			if strings.HasPrefix(s, "]") {
				return d, s[1:], nil
			}
			return nil, s, fmt.Errorf("bad slice at %q", s)
		}
	case strings.HasPrefix(s, "&"):
		sub, rest, err := parseD(s[1:])
		if err != nil {
			return nil, s, err
		}
		if !strings.HasPrefix(rest, "@") {
			return nil, s, fmt.Errorf("@ expected at %q", rest)
		}
		n, rest2, err := parseInt(rest[1:])
		return &D{K: 'P', Sub: sub, Seq: n, HasSeq: true}, rest2, err
	case strings.HasPrefix(s, "{"):
		d := &D{K: 'A'}
		s = s[1:]
		if strings.HasPrefix(s, "}") {
			return d, s[1:], nil
		}
		for {
			i := strings.Index(s, ":")
			if i < 0 {
				return nil, s, fmt.Errorf("field name expected at %q", s)
			}
			name := s[:i]
			e, rest, err := parseD(s[i+1:])
			if err != nil {
				return nil, s, err
			}
			d.Names = append(d.Names, name)
			d.Elems = append(d.Elems, e)
			s = rest
			if strings.HasPrefix(s, ",") {
				s = s[1:]
				continue
			}
			if strings.HasPrefix(s, "}") {
				return d, s[1:], nil
			}
			return nil, s, fmt.Errorf("bad aggregate at %q", s)
		}
	}
	return nil, s, fmt.Errorf("cannot parse description %q", s)
}

func (d *D) field(name string) *D {
	for i, n := range d.Names {
		if n == name {
			return d.Elems[i]
		}
	}
	return nil
}

// PtrUnifier keeps the bijection between expected pointer identities and observed addresses.
type PtrUnifier struct {
	fwd map[string]int
	rev map[int]string
}

func NewPtrUnifier() *PtrUnifier { return &PtrUnifier{fwd: map[string]int{}, rev: map[int]string{}} }

// Match compares an expected description with an observed one.
func (u *PtrUnifier) Match(exp, obs *D) error {
	if exp.K != obs.K {
		return fmt.Errorf("expected %s, observed %s", exp, obs)
	}
	switch exp.K {
	case 'L':
		if exp.ID != obs.ID {
			return fmt.Errorf("expected %s, observed %s", exp, obs)
		}
	case 'I':
		return u.Match(exp.Sub, obs.Sub)
	case 'P':
		if err := u.Match(exp.Sub, obs.Sub); err != nil {
			return err
		}
		if exp.HasSeq {
			if exp.Seq != obs.Seq {
				return fmt.Errorf("expected the pointer %s, observed a different pointer %s", exp, obs)
			}
			return nil
		}
		if n, ok := u.fwd[exp.Src]; ok {
			if n != obs.Seq {
				return fmt.Errorf("pointer identity: %s was address #%d before, now #%d (a second construction)", exp.Src, n, obs.Seq)
			}
		} else if s, ok := u.rev[obs.Seq]; ok && s != exp.Src {
			return fmt.Errorf("pointer identity: address #%d stands for both %s and %s", obs.Seq, s, exp.Src)
		} else {
			u.fwd[exp.Src] = obs.Seq
			u.rev[obs.Seq] = exp.Src
		}
	case 'S', 'A':
		if len(exp.Elems) != len(obs.Elems) {
			return fmt.Errorf("expected %s, observed %s", exp, obs)
		}
		for i := range exp.Elems {
			if exp.K == 'A' && exp.Names[i] != obs.Names[i] {
				return fmt.Errorf("expected %s, observed %s", exp, obs)
			}
			if err := u.Match(exp.Elems[i], obs.Elems[i]); err != nil {
				return fmt.Errorf("%v (inside expected %s, observed %s)", err, exp, obs)
			}
		}
	}
	return nil
}

func mintD(t *Type, id int, src string) *D {
	switch t.Kind {
	case KRaw:
		return &D{K: 'L', ID: 0}
	case KLeaf, KInt, KBasic:
		return &D{K: 'L', ID: id}
	case KIface:
		return &D{K: 'I', Sub: &D{K: 'L', ID: id}}
	case KAgg:
		d := &D{K: 'A'}
		for _, f := range t.Fields {
			d.Names = append(d.Names, f.Name)
			d.Elems = append(d.Elems, mintD(f.T, id, src+"/"+f.Name))
		}
		return d
	case KPtr:
		return &D{K: 'P', Sub: mintD(t.Elem, id, src+"*"), Src: src}
	case KSlice:
		return &D{K: 'S', Elems: []*D{mintD(t.Elem, id, src+"[0]")}}
	case KAlias:
		return mintD(t.Elem, id, src)
	}
	panic("mintD")
}

func zeroD(t *Type) *D {
	switch t.Kind {
	case KLeaf, KInt, KBasic, KRaw:
		return &D{K: 'L', ID: 0}
	case KIface, KPtr:
		return &D{K: 'N'}
	case KSlice:
		return &D{K: 'E'}
	case KAgg:
		d := &D{K: 'A'}
		for _, f := range t.Fields {
			d.Names = append(d.Names, f.Name)
			d.Elems = append(d.Elems, zeroD(f.T))
		}
		return d
	case KAlias:
		return zeroD(t.Elem)
	}
	panic("zeroD")
}

// ---------- reference model ----------

// Reason is one independently applicable ground for rejection.
type Reason struct {
	Class   string // conflict | bind-unprovided | cycle | missing | unused | inj-missing-error | inj-missing-cleanup | bad-bind | bad-field | bad-ifacevalue | dup-param | dup-field
	Subject string // type key or item description
}

func (r Reason) String() string { return r.Class + "(" + r.Subject + ")" }

type SKind int

const (
	SFunc SKind = iota
	SStruct
	SValue
	SParam
	SField
	SPtrField
	SBind
)

func (k SKind) String() string {
	return [...]string{"func", "struct", "value", "param", "field", "ptrfield", "bind"}[k]
}

// Entry is the single source a set designates for a type.
type Entry struct {
	T      *Type
	Kind   SKind
	Item   *Item // the item that provides it (nil for params)
	Fn     *Func
	Param  int
	Field  *Field
	Parent *Type // SField/SPtrField: the parent type (S or *S)
	Conc   *Type // SBind
	Direct *Item // the direct argument of the set under analysis through which the entry arrived
}

// Deps returns the types this entry needs.
func (e *Entry) Deps() []*Type {
	switch e.Kind {
	case SFunc:
		return e.Fn.Params
	case SStruct:
		var ts []*Type
		for _, f := range structFields(e.Item) {
			ts = append(ts, f.T)
		}
		return ts
	case SField, SPtrField:
		return []*Type{e.Parent}
	case SBind:
		return []*Type{e.Conc}
	}
	return nil
}

func structFields(it *Item) []*Field {
	agg := it.T.Strip()
	var fs []*Field
	if it.Kind == IStructLit {
		return agg.Fields
	}
	if len(it.Names) == 1 && it.Names[0] == "*" {
		for _, f := range agg.Fields {
			if !prevented(f.Tag) {
				fs = append(fs, f)
			}
		}
		return fs
	}
	for _, n := range it.Names {
		if f := agg.FieldByName(n); f != nil {
			fs = append(fs, f)
		}
	}
	return fs
}

// PMap is the provides-map of a set.
type PMap struct {
	M     map[string]*Entry
	Order []string
}

func (pm *PMap) add(e *Entry, reasons *[]Reason) {
	k := e.T.Key()
	if _, dup := pm.M[k]; dup {
		*reasons = append(*reasons, Reason{"conflict", k})
		return
	}
	pm.M[k] = e
	pm.Order = append(pm.Order, k)
}

// Implements applies Go's method-set rule for the IR's types. Every interface of the IR declares one marker method
// named after itself (unless Bare) besides what it embeds, so method sets are sets of marker names.
func Implements(c, iface *Type) bool {
	c = c.Strip()
	iface = iface.Strip()
	want := ifaceMethods(iface)
	var have map[string]bool
	switch c.Kind {
	case KLeaf, KAgg:
		if c.PtrRecv {
			return false
		}
		have = concreteMethods(c)
	case KPtr:
		e := c.Elem.Strip()
		if e.Kind != KLeaf && e.Kind != KAgg {
			return false
		}
		have = concreteMethods(e)
	case KIface:
		have = ifaceMethods(c)
	default:
		return false
	}
	if len(want) == 0 {
		return false // the IR has no empty interfaces
	}
	for m := range want {
		if !have[m] {
			return false
		}
	}
	return true
}

func ifaceMethods(t *Type) map[string]bool {
	ms := map[string]bool{}
	var rec func(t *Type)
	rec = func(t *Type) {
		t = t.Strip()
		if !t.Bare {
			ms["Is"+t.Name] = true
		}
		for _, e := range t.Embeds {
			rec(e)
		}
	}
	rec(t)
	return ms
}

func concreteMethods(c *Type) map[string]bool {
	ms := map[string]bool{}
	for _, i := range c.Impls {
		i = i.Strip()
		if c.Partial {
			// only the interface's own method is declared
			if !i.Bare {
				ms["Is"+i.Name] = true
			}
			continue
		}
		for m := range ifaceMethods(i) {
			ms[m] = true
		}
	}
	return ms
}

// ifaceIncludes reports whether interface a's method set includes b's.
func ifaceIncludes(a, b *Type) bool {
	have := ifaceMethods(a.Strip())
	for m := range ifaceMethods(b.Strip()) {
		if !have[m] {
			return false
		}
	}
	return true
}

type Model struct {
	memo map[*Set]*setResult
}

type setResult struct {
	pm      *PMap
	reasons []Reason
}

func NewModel() *Model { return &Model{memo: map[*Set]*setResult{}} }

// itemReasons validates one item on its own.
func itemReasons(it *Item) []Reason {
	var rs []Reason
	switch it.Kind {
	case IFunc:
		if it.Fn.Illegal {
			rs = append(rs, Reason{"bad-sig", it.Fn.Name})
		}
		seen := map[string]bool{}
		for _, p := range it.Fn.Params {
			if seen[p.Key()] {
				rs = append(rs, Reason{"dup-param", p.Key()})
			}
			seen[p.Key()] = true
		}
	case IStruct, IStructLit:
		agg := it.T.Strip()
		if it.Kind == IStruct && !(len(it.Names) == 1 && it.Names[0] == "*") {
			for _, n := range it.Names {
				f := agg.FieldByName(n)
				if f == nil || prevented(f.Tag) {
					rs = append(rs, Reason{"bad-field", n})
				}
			}
		}
		seen := map[string]bool{}
		for _, f := range structFields(it) {
			if seen[f.T.Key()] {
				rs = append(rs, Reason{"dup-field", f.T.Key()})
			}
			seen[f.T.Key()] = true
		}
	case IFieldsOf:
		agg := it.T.Strip()
		for _, n := range it.Names {
			f := agg.FieldByName(n)
			if f == nil || prevented(f.Tag) {
				rs = append(rs, Reason{"bad-field", n})
			}
		}
	case IBind:
		if it.T.Strip().Kind != KIface {
			rs = append(rs, Reason{"bad-bind", it.T.Key()})
		} else if it.Conc.Key() == it.T.Key() {
			rs = append(rs, Reason{"bad-bind", it.T.Key()})
		} else if !Implements(it.Conc, it.T) {
			rs = append(rs, Reason{"bad-bind", it.Conc.Key()})
		}
	case IIfaceValue:
		if !Implements(it.Conc, it.T) {
			rs = append(rs, Reason{"bad-ifacevalue", it.Conc.Key()})
		}
	case IValue:
		if it.T.Strip().Kind == KIface {
			rs = append(rs, Reason{"bad-value", it.T.Key()})
		}
	}
	return rs
}

// Analyze computes the provides-map of an argument list (of wire.Build with params, or wire.NewSet).
func (m *Model) Analyze(items []*Item, params []Param) (*PMap, []Reason) {
	pm := &PMap{M: map[string]*Entry{}}
	var reasons []Reason
	for i, p := range params {
		pm.add(&Entry{T: p.T, Kind: SParam, Param: i}, &reasons)
	}
	for _, it := range items {
		reasons = append(reasons, itemReasons(it)...)
	}
	// nested sets: everything they provide
	for _, it := range items {
		if it.Kind != ISetRef && it.Kind != IInlineSet {
			continue
		}
		sr := m.analyzeSet(it.Set)
		reasons = append(reasons, sr.reasons...)
		for _, k := range sr.pm.Order {
			e := *sr.pm.M[k]
			e.Direct = it
			pm.add(&e, &reasons)
		}
	}
	for _, it := range items {
		switch it.Kind {
		case IFunc:
			if it.Fn.Illegal || it.Fn.Out == nil {
				continue
			}
			pm.add(&Entry{T: it.Fn.Out, Kind: SFunc, Item: it, Fn: it.Fn, Direct: it}, &reasons)
		case IStruct, IStructLit:
			pm.add(&Entry{T: it.T, Kind: SStruct, Item: it, Direct: it}, &reasons)
			pm.add(&Entry{T: Ptr(it.T), Kind: SStruct, Item: it, Direct: it}, &reasons)
		case IValue, IIfaceValue:
			pm.add(&Entry{T: it.T, Kind: SValue, Item: it, Direct: it}, &reasons)
		case IFieldsOf:
			agg := it.T.Strip()
			parent := it.T
			if it.PtrParent {
				parent = Ptr(it.T)
			}
			for _, n := range it.Names {
				f := agg.FieldByName(n)
				if f == nil || prevented(f.Tag) {
					continue
				}
				pm.add(&Entry{T: f.T, Kind: SField, Item: it, Field: f, Parent: parent, Direct: it}, &reasons)
				if it.PtrParent {
					pm.add(&Entry{T: Ptr(f.T), Kind: SPtrField, Item: it, Field: f, Parent: parent, Direct: it}, &reasons)
				}
			}
		}
	}
	for _, it := range items {
		if it.Kind != IBind {
			continue
		}
		if len(itemReasons(it)) > 0 {
			continue
		}
		pm.add(&Entry{T: it.T, Kind: SBind, Item: it, Conc: it.Conc, Direct: it}, &reasons)
	}
	// "the set in which the binding appears also provides C": judged once every binding is registered, so that
	// the verdict cannot depend on the order of the arguments (C may itself be an interface bound in this set).
	for _, it := range items {
		if it.Kind != IBind || len(itemReasons(it)) > 0 {
			continue
		}
		if _, ok := pm.M[it.Conc.Key()]; !ok {
			reasons = append(reasons, Reason{"bind-unprovided", it.Conc.Key()})
		}
	}
	if hasCycle(pm) {
		reasons = append(reasons, Reason{"cycle", ""})
	}
	return pm, reasons
}

func (m *Model) analyzeSet(s *Set) *setResult {
	if r, ok := m.memo[s]; ok {
		return r
	}
	pm, rs := m.Analyze(s.Items, nil)
	r := &setResult{pm, rs}
	m.memo[s] = r
	return r
}

func hasCycle(pm *PMap) bool {
	color := map[string]int{}
	var visit func(k string) bool
	visit = func(k string) bool {
		switch color[k] {
		case 1:
			return true
		case 2:
			return false
		}
		color[k] = 1
		if e, ok := pm.M[k]; ok {
			for _, d := range e.Deps() {
				if visit(d.Key()) {
					return true
				}
			}
		}
		color[k] = 2
		return false
	}
	for _, k := range pm.Order {
		if visit(k) {
			return true
		}
	}
	return false
}

// SetInfo is the model's view of one named provider set (for wire show / wire check).
type SetInfo struct {
	Set     *Set
	Reasons []Reason
	PM      *PMap
}

// AnalyzeSet exposes the per-set analysis.
func (m *Model) AnalyzeSet(s *Set) *SetInfo {
	r := m.analyzeSet(s)
	return &SetInfo{Set: s, Reasons: r.reasons, PM: r.pm}
}

// Inputs returns, for every type the set provides, the sorted keys of the types that must
// be supplied from outside to obtain it.
func (si *SetInfo) Inputs() map[string][]string {
	memo := map[string]map[string]bool{}
	var rec func(k string) map[string]bool
	rec = func(k string) map[string]bool {
		if v, ok := memo[k]; ok {
			return v
		}
		res := map[string]bool{}
		memo[k] = res
		e, ok := si.PM.M[k]
		if !ok {
			res[k] = true
			return res
		}
		for _, d := range e.Deps() {
			for x := range rec(d.Key()) {
				res[x] = true
			}
		}
		return res
	}
	out := map[string][]string{}
	for _, k := range si.PM.Order {
		var ins []string
		for x := range rec(k) {
			ins = append(ins, x)
		}
		sort.Strings(ins)
		out[k] = ins
	}
	return out
}

// IncludedSets returns the named sets reachable from s (excluding s), as "pkgpath.Name".
func IncludedSets(s *Set) []string {
	seen := map[*Set]bool{}
	var out []string
	var rec func(x *Set)
	rec = func(x *Set) {
		for _, it := range x.Items {
			if it.Kind != ISetRef && it.Kind != IInlineSet {
				continue
			}
			if seen[it.Set] {
				continue
			}
			seen[it.Set] = true
			if it.Kind == ISetRef {
				out = append(out, "\""+it.Set.Pkg.Path()+"\"."+it.Set.Name)
			}
			rec(it.Set)
		}
	}
	rec(s)
	sort.Strings(out)
	return out
}

// Wiring is the model's prediction for an accepted injector.
type Wiring struct {
	Inj     *Injector
	PM      *PMap
	Needed  map[string]*Entry // every type the result transitively requires -> its source
	Funcs   map[string]*Func  // provider functions that must run (exactly these)
	OutKey  string
	Reasons []Reason
}

func (w *Wiring) Accepted() bool { return len(w.Reasons) == 0 }

// Solve analyses one injector.
func (m *Model) Solve(inj *Injector) *Wiring {
	pm, reasons := m.Analyze(inj.Items, inj.Params)
	w := &Wiring{Inj: inj, PM: pm, Needed: map[string]*Entry{}, Funcs: map[string]*Func{}, OutKey: inj.Out.Key(), Reasons: reasons}
	if len(reasons) > 0 {
		return w
	}
	used := map[*Item]bool{}
	var visit func(t *Type)
	visit = func(t *Type) {
		k := t.Key()
		if _, done := w.Needed[k]; done {
			return
		}
		e, ok := pm.M[k]
		if !ok {
			w.Needed[k] = nil
			w.Reasons = append(w.Reasons, Reason{"missing", k})
			return
		}
		w.Needed[k] = e
		if e.Direct != nil {
			used[e.Direct] = true
		}
		if e.Kind == SFunc {
			w.Funcs[e.Fn.TraceName()] = e.Fn
			if e.Fn.Err && !inj.Err {
				w.Reasons = append(w.Reasons, Reason{"inj-missing-error", k})
			}
			if e.Fn.Cleanup && !inj.Cleanup {
				w.Reasons = append(w.Reasons, Reason{"inj-missing-cleanup", k})
			}
		}
		for _, d := range e.Deps() {
			visit(d)
		}
	}
	visit(inj.Out)
	for _, it := range inj.Items {
		if !used[it] {
			w.Reasons = append(w.Reasons, Reason{"unused", it.String()})
		}
	}
	return w
}

// NeededKeys returns the needed type keys, sorted.
func (w *Wiring) NeededKeys() []string {
	var ks []string
	for k := range w.Needed {
		ks = append(ks, k)
	}
	sort.Strings(ks)
	return ks
}

// Signature is a canonical rendering of the wiring graph (for differential comparison).
func (w *Wiring) Signature() string {
	var sb strings.Builder
	for _, k := range w.NeededKeys() {
		e := w.Needed[k]
		if e == nil {
			fmt.Fprintf(&sb, "%s <- MISSING\n", k)
			continue
		}
		var deps []string
		for _, d := range e.Deps() {
			deps = append(deps, d.Key())
		}
		name := ""
		if e.Fn != nil {
			name = e.Fn.Name
		}
		fmt.Fprintf(&sb, "%s <- %s %s(%s)\n", k, e.Kind, name, strings.Join(deps, ","))
	}
	return sb.String()
}
