package ir

import (
	"fmt"
	"strconv"
	"strings"
)

// Ev is one trace event.
type Ev struct {
	Kind   byte // A C F K R X N
	Name   string
	ID     int
	Fields []string
}

// Scenario is one driven injector call (B ... D).
type Scenario struct {
	Inj   string
	Scen  string
	Fail  int
	Evs   []Ev
	Done  bool
	Junk  []string
	Lines []string
}

// ParseTrace splits the trace of a case into scenarios.
func ParseTrace(lines []string) ([]*Scenario, error) {
	var out []*Scenario
	var cur *Scenario
	for _, l := range lines {
		f := strings.Fields(l)
		if len(f) == 0 {
			continue
		}
		if cur != nil {
			cur.Lines = append(cur.Lines, l)
		}
		switch f[0] {
		case "B":
			if len(f) != 4 {
				return nil, fmt.Errorf("bad B line %q", l)
			}
			n, _ := strconv.Atoi(f[3])
			cur = &Scenario{Inj: f[1], Scen: f[2], Fail: n, Lines: []string{l}}
			out = append(out, cur)
		case "H":
		case "?":
			if cur != nil {
				cur.Junk = append(cur.Junk, l)
			}
		default:
			if cur == nil {
				return nil, fmt.Errorf("event outside scenario: %q", l)
			}
			ev := Ev{Kind: f[0][0]}
			switch f[0] {
			case "A":
				ev.ID, _ = strconv.Atoi(f[1])
				ev.Fields = f[2:]
			case "C":
				ev.Name = f[1]
				ev.ID, _ = strconv.Atoi(f[2])
				ev.Fields = f[3:]
			case "F", "K":
				ev.Name = f[1]
				ev.ID, _ = strconv.Atoi(f[2])
			case "R":
				ev.Name = f[1]
				ev.Fields = f[2:]
			case "D":
				cur.Done = true
			case "N":
				ev.Fields = f[1:]
			}
			cur.Evs = append(cur.Evs, ev)
		}
	}
	return out, nil
}

// Problem is one disagreement between a scenario and the model.
type Problem struct {
	Class string // wiring | error-path | cleanup | harness
	Msg   string
}

type evalCtx struct {
	w      *Wiring
	ids    map[string]int // provider function name -> identity minted in this scenario
	args   []*D
	memo   map[string]*D
	failed map[string]string
}

func (c *evalCtx) val(k string) (*D, error) {
	if d, ok := c.memo[k]; ok {
		return d, nil
	}
	e := c.w.Needed[k]
	if e == nil {
		e = c.w.PM.M[k]
	}
	if e == nil {
		return nil, fmt.Errorf("model has no source for %s", k)
	}
	var d *D
	switch e.Kind {
	case SFunc:
		id, ok := c.ids[e.Fn.TraceName()]
		if !ok {
			return nil, fmt.Errorf("value of %s is needed before its provider %s ran", k, e.Fn.TraceName())
		}
		d = mintD(e.T, id, "fn:"+e.Fn.TraceName())
	case SParam:
		if e.Param >= len(c.args) {
			return nil, fmt.Errorf("no argument %d logged", e.Param)
		}
		d = c.args[e.Param]
	case SValue:
		t := e.T
		if e.Item.Kind == IIfaceValue {
			// the interface holds the dynamic value
			inner := mintD(e.Item.Conc, e.Item.ValID, fmt.Sprintf("val:%d", e.Item.ValID))
			d = ifaceOf(inner)
		} else {
			d = mintD(t, e.Item.ValID, fmt.Sprintf("val:%d", e.Item.ValID))
		}
	case SStruct:
		agg := e.Item.T.Strip()
		sel := map[string]bool{}
		for _, f := range structFields(e.Item) {
			sel[f.Name] = true
		}
		a := &D{K: 'A'}
		for _, f := range agg.Fields {
			a.Names = append(a.Names, f.Name)
			if sel[f.Name] {
				fd, err := c.val(f.T.Key())
				if err != nil {
					return nil, err
				}
				a.Elems = append(a.Elems, fd)
			} else {
				a.Elems = append(a.Elems, zeroD(f.T))
			}
		}
		if e.T.Strip().Kind == KPtr {
			d = &D{K: 'P', Sub: a, Src: "structptr:" + agg.Name}
		} else {
			d = a
		}
	case SField, SPtrField:
		pd, err := c.val(e.Parent.Key())
		if err != nil {
			return nil, err
		}
		if pd.K == 'P' {
			pd = pd.Sub
		}
		if pd.K != 'A' {
			return nil, fmt.Errorf("parent of field %s is not an aggregate: %s", e.Field.Name, pd)
		}
		fd := pd.field(e.Field.Name)
		if fd == nil {
			return nil, fmt.Errorf("no field %s in %s", e.Field.Name, pd)
		}
		if e.Kind == SPtrField {
			d = &D{K: 'P', Sub: fd, Src: "ptrfield:" + e.Parent.Key() + "." + e.Field.Name}
		} else {
			d = fd
		}
	case SBind:
		inner, err := c.val(e.Conc.Key())
		if err != nil {
			return nil, err
		}
		d = ifaceOf(inner)
	}
	c.memo[k] = d
	return d, nil
}

// ifaceOf describes an interface value holding inner: the runtime prints "i:" followed by
// the VDesc of the dynamic value, which describes the pointee for pointers.
func ifaceOf(inner *D) *D {
	for inner.K == 'P' {
		inner = inner.Sub
	}
	if inner.K == 'I' {
		return inner
	}
	return &D{K: 'I', Sub: inner}
}

// CheckScenario compares one scenario with the model's wiring.
func CheckScenario(w *Wiring, sc *Scenario) []Problem {
	var ps []Problem
	add := func(class, format string, a ...interface{}) {
		ps = append(ps, Problem{class, fmt.Sprintf("[%s %s] ", sc.Inj, sc.Scen) + fmt.Sprintf(format, a...)})
	}
	if !sc.Done {
		add("harness", "scenario did not finish (generated code panicked?)")
		return ps
	}
	for _, j := range sc.Junk {
		add("harness", "unexpected output: %s", j)
	}
	inj := w.Inj
	c := &evalCtx{w: w, ids: map[string]int{}, memo: map[string]*D{}}
	u := NewPtrUnifier()
	var acquired []Ev // successful cleanup-returning calls in order
	var failEv *Ev
	var lastCall *Ev
	phase := 0 // 0 before R, 1 after R before X, 2 after X
	var kBefore, kAfter []Ev
	var ret *Ev
	for i := range sc.Evs {
		ev := sc.Evs[i]
		switch ev.Kind {
		case 'A':
			d, err := ParseD(strings.Join(ev.Fields, " "))
			if err != nil {
				add("harness", "%v", err)
				return ps
			}
			c.args = append(c.args, d)
		case 'C':
			if phase != 0 {
				add("wiring", "provider %s called after the injector returned", ev.Name)
			}
			if failEv != nil {
				add("error-path", "provider %s called after provider %s failed", ev.Name, failEv.Name)
			}
			fn := w.Funcs[ev.Name]
			if fn == nil {
				add("wiring", "provider %s was called although the result does not depend on it", ev.Name)
				continue
			}
			if _, dup := c.ids[ev.Name]; dup {
				add("wiring", "provider %s called more than once in one injector call", ev.Name)
				continue
			}
			descs := ev.Fields[1:]
			if len(descs) != len(fn.Params) {
				add("harness", "provider %s logged %d args, model has %d", ev.Name, len(descs), len(fn.Params))
				continue
			}
			for j, pt := range fn.Params {
				exp, err := c.val(pt.Key())
				if err != nil {
					add("wiring", "provider %s argument %d (%s): %v", ev.Name, j, pt.Key(), err)
					continue
				}
				obs, err := ParseD(descs[j])
				if err != nil {
					add("harness", "%v", err)
					continue
				}
				if err := u.Match(exp, obs); err != nil {
					add("wiring", "provider %s argument %d (%s) is not the value of its designated source: %v", ev.Name, j, pt.Key(), err)
				}
			}
			c.ids[ev.Name] = ev.ID
			lastCall = &sc.Evs[i]
			// a call that does not fail acquires its cleanup; decided when we see F or the next event
			if fn.Cleanup {
				acquired = append(acquired, ev)
			}
		case 'F':
			failEv = &sc.Evs[i]
			if lastCall == nil || lastCall.Name != ev.Name {
				add("harness", "F without matching call")
			}
			// the failing provider's own cleanup is not acquired
			if n := len(acquired); n > 0 && acquired[n-1].Name == ev.Name {
				acquired = acquired[:n-1]
			}
		case 'K':
			if strings.HasPrefix(ev.Name, "BAD-") {
				add("error-path", "the cleanup returned by the failing provider %s was called", strings.TrimPrefix(ev.Name, "BAD-"))
				continue
			}
			if phase == 2 {
				kAfter = append(kAfter, ev)
			} else {
				kBefore = append(kBefore, ev)
				if phase == 1 {
					add("cleanup", "cleanup of %s ran after the injector returned but before the caller invoked the cleanup function", ev.Name)
				}
			}
		case 'N':
			if len(ev.Fields) > 0 && strings.HasPrefix(ev.Fields[0], "FAIL") {
				add("wiring", "generated consumer observed: %s", strings.Join(ev.Fields, " "))
			}
		case 'R':
			phase = 1
			ret = &sc.Evs[i]
		case 'X':
			phase = 2
		}
	}
	if ret == nil {
		add("harness", "no return event")
		return ps
	}
	revNames := func(evs []Ev) string {
		var s []string
		for i := len(evs) - 1; i >= 0; i-- {
			s = append(s, fmt.Sprintf("%s#%d", evs[i].Name, evs[i].ID))
		}
		return strings.Join(s, " ")
	}
	names := func(evs []Ev) string {
		var s []string
		for _, e := range evs {
			s = append(s, fmt.Sprintf("%s#%d", e.Name, e.ID))
		}
		return strings.Join(s, " ")
	}
	if failEv != nil {
		// ---- failing scenario ----
		if ret.Name != "err" {
			add("error-path", "provider %s failed but the injector returned success", failEv.Name)
			return ps
		}
		f := ret.Fields // isInjected errId valueIsZero cleanupIsNil
		if f[0] != "1" || f[1] != strconv.Itoa(failEv.ID) {
			add("error-path", "injector did not return the very error of the failing provider %s (injected=%s id=%s want id=%d)", failEv.Name, f[0], f[1], failEv.ID)
		}
		if f[2] != "1" {
			add("error-path", "injector returned a non-zero value together with the error of %s", failEv.Name)
		}
		if inj.Cleanup && f[3] != "1" {
			add("error-path", "injector returned a non-nil cleanup together with the error of %s", failEv.Name)
		}
		if got, want := names(kBefore), revNames(acquired); got != want {
			add("error-path", "cleanups run before returning the error of %s: got [%s], want reverse acquisition order [%s]", failEv.Name, got, want)
		}
		if len(kAfter) > 0 {
			add("error-path", "cleanups ran after the failed injector returned: [%s]", names(kAfter))
		}
		return ps
	}
	// ---- success scenario ----
	if sc.Fail != 0 {
		add("harness", "scenario asked for failure %d but no provider failed", sc.Fail)
	}
	if ret.Name != "ok" {
		add("error-path", "no provider failed but the injector returned an error")
		return ps
	}
	for name := range w.Funcs {
		if _, ok := c.ids[name]; !ok {
			add("wiring", "provider %s was never called although the result depends on it", name)
		}
	}
	exp, err := c.val(w.OutKey)
	if err != nil {
		add("wiring", "result: %v", err)
	} else {
		obs, err := ParseD(ret.Fields[0])
		if err != nil {
			add("harness", "%v", err)
		} else if err := u.Match(exp, obs); err != nil {
			add("wiring", "injector result is not the value of the source of %s: %v", w.OutKey, err)
		}
	}
	if len(kBefore) > 0 {
		add("cleanup", "cleanups ran before the caller invoked the returned cleanup function: [%s]", names(kBefore))
	}
	if inj.Cleanup {
		if ret.Fields[1] != "1" {
			add("cleanup", "injector returned a nil cleanup function on success")
		}
		if got, want := names(kAfter), revNames(acquired); got != want {
			add("cleanup", "aggregated cleanup ran [%s], want every acquired cleanup once in reverse acquisition order [%s]", got, want)
		}
	} else if len(kAfter) > 0 {
		add("cleanup", "cleanups ran although the injector has no cleanup result: [%s]", names(kAfter))
	}
	return ps
}

// CheckCase checks every scenario of every injector of a program against the model.
// wirings maps injector name -> wiring.
func CheckCase(wirings map[string]*Wiring, lines []string) ([]Problem, int) {
	scs, err := ParseTrace(lines)
	if err != nil {
		return []Problem{{"harness", err.Error()}}, 0
	}
	var ps []Problem
	seen := map[string]int{}
	for _, sc := range scs {
		w := wirings[sc.Inj]
		if w == nil {
			ps = append(ps, Problem{"harness", "scenario for unknown injector " + sc.Inj})
			continue
		}
		seen[sc.Inj]++
		ps = append(ps, CheckScenario(w, sc)...)
	}
	for name, w := range wirings {
		if seen[name] == 0 {
			ps = append(ps, Problem{"harness", "no scenario ran for injector " + name})
			continue
		}
		// every error-capable needed provider must have had its failure scenario
		k := 0
		for _, f := range w.Funcs {
			if f.Err {
				k++
			}
		}
		if seen[name] < 1+k {
			ps = append(ps, Problem{"harness", fmt.Sprintf("injector %s: %d scenarios ran, expected at least %d", name, seen[name], 1+k)})
		}
	}
	return ps, len(scs)
}
