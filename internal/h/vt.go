package h

// VTSource is the traced runtime linked with generated injectors. It imports
// nothing (println only) so that a batch compiles from an almost empty GOCACHE
// in seconds. One event per line on stderr, prefixed "V|".
const VTSource = `// Package vt is the tracing runtime and fault injector (verification harness).
package vt

var (
	failAt   int // fail the failAt-th error-capable call of the current scenario (0 = none)
	failable int // error-capable calls seen in the current scenario
	nextID   int
	ptrSeq   int
	ptrs     = map[interface{}]int{}
)

// Itoa formats an int without importing strconv.
func Itoa(n int) string {
	if n == 0 {
		return "0"
	}
	neg := n < 0
	if neg {
		n = -n
	}
	var b [24]byte
	i := len(b)
	for n > 0 {
		i--
		b[i] = byte('0' + n%10)
		n /= 10
	}
	if neg {
		i--
		b[i] = '-'
	}
	return string(b[i:])
}

func Case(name string) { println("V|CASE " + name) }

// Begin starts a scenario of injector inj; fail is the 1-based index of the
// error-capable call that must fail (0: none).
func Begin(inj, scen string, fail int) {
	failAt = fail
	failable = 0
	println("V|B " + inj + " " + scen + " " + Itoa(fail))
}

func NewID() int { nextID++; return nextID }

func Arg(i int, desc string) { println("V|A " + Itoa(i) + " " + desc) }

// Call records entry into a provider. It returns the identity the provider must
// mint and whether the provider must fail.
func Call(name string, canFail bool, args ...string) (int, bool) {
	id := NewID()
	s := "V|C " + name + " " + Itoa(id)
	if canFail {
		s += " 1"
	} else {
		s += " 0"
	}
	for _, a := range args {
		s += " " + a
	}
	println(s)
	if canFail {
		failable++
		if failable == failAt {
			println("V|F " + name + " " + Itoa(id))
			return id, true
		}
	}
	return id, false
}

// Note records a free-form observation.
func Note(s string) { println("V|N " + s) }

func Cleanup(name string, id int)    { println("V|K " + name + " " + Itoa(id)) }
func BadCleanup(name string, id int) { println("V|K BAD-" + name + " " + Itoa(id)) }

// Err is the injected error value.
type Err struct{ ID int }

func (e *Err) Error() string { return "injected" }

func NewErr(id int) error { return &Err{ID: id} }

func b2s(b bool) string {
	if b {
		return "1"
	}
	return "0"
}

func RetOK(desc string, cleanupNonNil bool) {
	println("V|R ok " + desc + " " + b2s(cleanupNonNil))
}

func RetErr(err error, valueIsZero bool, cleanupIsNil bool) {
	e, ok := err.(*Err)
	id := -1
	if ok && e != nil {
		id = e.ID
	}
	println("V|R err " + b2s(ok) + " " + Itoa(id) + " " + b2s(valueIsZero) + " " + b2s(cleanupIsNil))
}

func X()            { println("V|X") }
func Done()         { println("V|D") }
func Failable() int { return failable }

// Ptr describes a pointer: nil, or &<desc of pointee>@<address sequence number>.
func Ptr[T any](p *T, f func(T) string) string {
	if p == nil {
		return "nil"
	}
	n, ok := ptrs[p]
	if !ok {
		ptrSeq++
		n = ptrSeq
		ptrs[p] = n
	}
	return "&" + f(*p) + "@" + Itoa(n)
}

// Slice describes a slice.
func Slice[T any](s []T, f func(T) string) string {
	if s == nil {
		return "[]"
	}
	if len(s) == 0 {
		return "[e]" // empty but not nil: not the zero value
	}
	r := "["
	for i, e := range s {
		if i > 0 {
			r += ","
		}
		r += f(e)
	}
	return r + "]"
}

// Scenarios enumerates the fault space of one injector: the success run, every
// single failure point, and (hist>=2) every call history of that length over
// {ok, fail@1..K} followed by a final ok run.
func Scenarios(drive func(fail int, scen string) int, hist int) {
	k := drive(0, "ok")
	for i := 1; i <= k; i++ {
		drive(i, "f"+Itoa(i))
	}
	if hist < 2 || k == 0 {
		return
	}
	if k > 3 && hist > 2 {
		hist = 2
	}
	n := 1
	for i := 0; i < hist; i++ {
		n *= k + 1
	}
	for h := 0; h < n; h++ {
		x := h
		name := "h"
		for i := 0; i < hist; i++ {
			name += "." + Itoa(x%(k+1))
			x /= k + 1
		}
		println("V|H " + name)
		x = h
		for i := 0; i < hist; i++ {
			drive(x%(k+1), name)
			x /= k + 1
		}
		drive(0, name)
	}
}
`
