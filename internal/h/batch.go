package h

import (
	"fmt"
	"os"
	"path/filepath"
	"regexp"
	"sort"
	"strings"
	"sync"
	"time"
)

const ModPath = "example.com/m"

// Case is one enumerated program together with its oracle.
type Case struct {
	ID    string            // canonical case id (stable across runs)
	Files map[string]string // path relative to the case root -> content; {{ROOT}} = import path of the root package, {{CASE}} = directory name
	Drive bool              // root package has VerifDrive(): compile, link and run it when wire accepts
	Build bool              // compile the case (default tags) when wire accepts, even without a driver
	ExtraBuild []string     // further packages of the case (relative paths) compiled along with the root
	Judge func(r *Result) []Violation
	Meta  interface{}
	Dir   string // assigned by the runner
}

// PkgResult is what wire said about one package of a case.
type PkgResult struct {
	Failed bool     // "<pkg>: generate failed"
	Wrote  bool     // "<pkg>: wrote <file>"
	Diags  []string // diagnostics attributed to this package (multi-line joined, paths normalised)
}

// Result is everything observed for one case.
type Result struct {
	Case       *Case
	Pkgs       map[string]*PkgResult // by path relative to the case root ("" = root package)
	Crashed    bool                  // panic / runtime error in wire
	TimedOut   bool
	LoadFailed bool   // the whole load failed (type error etc.) -- a renderer bug unless the family expects it
	Raw        string // raw stderr relevant to this case (solo run) or the batch stderr on crash
	Exit       int    // exit status (solo runs only; batch exit otherwise)
	Solo       bool
	GenSrc     map[string]string // rel pkg -> wire_gen.go content (after run)
	Compiled   bool
	CompileErr string
	Ran        bool
	TaggedTrace      []string // trace of the same driver built with -tags wireinject (original declarations)
	TaggedCompileErr string
	TaggedRan        bool
	CheckRan   bool     // wire check was run on the same tree
	CheckDiags []string // diagnostics of wire check attributed to this case (normalised)
	ShowOut    string   // stdout of wire show for this case's packages (normalised)
	ShowDiags  []string
	ShowRan    bool
	ShowOuts   map[string]string // stdout of wire show under each extra variant (e.g. iteration-order schedules)
	TreeChangedBy string // a read-only command that changed the case's directory
	Company    []*Case     // the cases processed by the same wire invocation (batch runs only)
	NotRun     bool        // skipped by fail-fast
	Judged     bool
	Verdict    []Violation // filled by RunAll
	Panicked   bool     // generated code panicked while driven
	Trace      []string // V| lines of this case (without the prefix)
}

// Root returns the root package result (never nil).
func (r *Result) Root() *PkgResult {
	if r == nil {
		return &PkgResult{}
	}
	if p := r.Pkgs[""]; p != nil {
		return p
	}
	return &PkgResult{}
}

// Accepted reports whether wire succeeded for the root package (wrote output or had nothing to do) .
func (r *Result) Accepted() bool {
	return !r.Crashed && !r.TimedOut && !r.LoadFailed && !r.Root().Failed
}

// AllDiags joins every diagnostic of every package of the case.
func (r *Result) AllDiags() string {
	var keys []string
	for k := range r.Pkgs {
		keys = append(keys, k)
	}
	sort.Strings(keys)
	var sb strings.Builder
	for _, k := range keys {
		for _, d := range r.Pkgs[k].Diags {
			sb.WriteString(d)
			sb.WriteByte('\n')
		}
	}
	return sb.String()
}

// Violation is one property violation candidate.
type Violation struct {
	CaseID  string
	Symptom string // short class used for known-findings matching
	Detail  string
}

// Runner runs batches of cases against the real binary.
type Runner struct {
	S          *Scratch
	BatchSize  int
	Workers    int
	GenTimeout time.Duration
	SoloTimeout time.Duration
	AlsoTagged  bool // additionally build and run the drivers with -tags wireinject (the templates instead of wire_gen.go)
	AlsoCheck   bool // additionally run `wire check ./...` on the same tree
	AlsoShow    bool // additionally run `wire show ./...` on the same tree
	ShowVariants []ShowVariant // further runs of wire show (another binary and/or environment); outputs in Result.ShowOuts
	ExtraGen   []string // extra args for wire gen (before patterns)
	ExtraRO    []string // extra args for wire check / wire show (before patterns)
	Cmd        string   // wire subcommand (default gen)

	Deadline      time.Time // internal deadline: batches not started by then are not run (exhaustive=false, exit 0)
	MaxCandidates int // stop starting new batches after this many cases with violation candidates (0 = never)
	Candidates    int
	Skipped       int

	mu          sync.Mutex
	WireRuns    int
	Scenarios   int
	Compiles    int
	InternalErr []string
}

func NewRunner(s *Scratch) *Runner {
	rn := newRunner(s)
	if v := os.Getenv("VERIF_MAXCAND"); v != "" {
		fmt.Sscanf(v, "%d", &rn.MaxCandidates)
	}
	return rn
}

func newRunner(s *Scratch) *Runner {
	return &Runner{S: s, BatchSize: 200, Workers: 8, GenTimeout: 60 * time.Second, SoloTimeout: 20 * time.Second, MaxCandidates: 40}
}

func (rn *Runner) internalf(format string, a ...interface{}) {
	rn.mu.Lock()
	rn.InternalErr = append(rn.InternalErr, fmt.Sprintf(format, a...))
	rn.mu.Unlock()
}

// RunAll runs every case; results are in case order.
func (rn *Runner) RunAll(cases []*Case) []*Result {
	results := make([]*Result, len(cases))
	type job struct{ lo, hi int }
	jobs := make(chan job)
	var wg sync.WaitGroup
	for w := 0; w < rn.Workers; w++ {
		wg.Add(1)
		go func() {
			defer wg.Done()
			for j := range jobs {
				if rn.stopped() {
					// fail fast: enough violation candidates; remaining cases are not run
					for i := j.lo; i < j.hi; i++ {
						results[i] = &Result{Case: cases[i], NotRun: true, Pkgs: map[string]*PkgResult{}, GenSrc: map[string]string{}}
					}
					continue
				}
				rs := rn.runBatch(cases[j.lo:j.hi])
				for _, r := range rs {
					if r != nil && !r.NotRun && r.Case.Judge != nil {
						r.Verdict = r.Case.Judge(r)
						r.Judged = true
						if len(r.Verdict) > 0 {
							rn.mu.Lock()
							rn.Candidates++
							rn.mu.Unlock()
						}
					}
				}
				copy(results[j.lo:j.hi], rs)
			}
		}()
	}
	for lo := 0; lo < len(cases); lo += rn.BatchSize {
		hi := lo + rn.BatchSize
		if hi > len(cases) {
			hi = len(cases)
		}
		jobs <- job{lo, hi}
	}
	close(jobs)
	wg.Wait()
	return results
}

// stopped reports whether enough violation candidates were seen to stop early.
func (rn *Runner) stopped() bool {
	rn.mu.Lock()
	defer rn.mu.Unlock()
	if !rn.Deadline.IsZero() && time.Now().After(rn.Deadline) {
		return true
	}
	return rn.MaxCandidates > 0 && rn.Candidates >= rn.MaxCandidates
}

func subst(s, root, dir string) string {
	s = strings.ReplaceAll(s, "{{ROOT}}", root)
	return strings.ReplaceAll(s, "{{CASE}}", dir)
}

func (rn *Runner) materialise(mod string, cases []*Case) error {
	if err := WriteFiles(mod, ModuleFiles(ModPath)); err != nil {
		return err
	}
	if err := WriteFiles(mod, map[string]string{"vt/vt.go": VTSource}); err != nil {
		return err
	}
	for i, c := range cases {
		c.Dir = fmt.Sprintf("c%05d", i)
		files := map[string]string{}
		for p, content := range c.Files {
			files[filepath.Join(c.Dir, p)] = subst(content, ModPath+"/"+c.Dir, c.Dir)
		}
		if err := WriteFiles(mod, files); err != nil {
			return err
		}
	}
	return nil
}

var (
	reStatus = regexp.MustCompile(`^wire: (\S+): (generate failed|wrote (.*))$`)
	rePanic  = regexp.MustCompile(`(?m)^(panic: |goroutine \d+ \[|fatal error: |runtime error)`)
)

// parseWire attributes wire's stderr to packages. Returns per import path results
// and the unattributed remainder.
func parseWire(stderr string) (map[string]*PkgResult, []string) {
	pk := map[string]*PkgResult{}
	var pending []string
	var cur *strings.Builder
	flush := func() {
		if cur != nil {
			pending = append(pending, cur.String())
			cur = nil
		}
	}
	for _, line := range strings.Split(stderr, "\n") {
		if line == "" {
			continue
		}
		if strings.HasPrefix(line, "Warning: ") {
			continue
		}
		if m := reStatus.FindStringSubmatch(line); m != nil {
			flush()
			p := pk[m[1]]
			if p == nil {
				p = &PkgResult{}
				pk[m[1]] = p
			}
			if m[2] == "generate failed" {
				p.Failed = true
				p.Diags = append(p.Diags, pending...)
				pending = nil
			} else {
				p.Wrote = true
				// diagnostics printed before a "wrote" line of a package with errors were
				// already consumed by its "generate failed" line; anything pending here is unattributed.
			}
			continue
		}
		if strings.HasPrefix(line, "wire: ") {
			flush()
			cur = &strings.Builder{}
			cur.WriteString(strings.TrimPrefix(line, "wire: "))
			continue
		}
		if cur != nil {
			cur.WriteByte('\n')
			cur.WriteString(line)
		} else {
			pending = append(pending, line)
		}
	}
	flush()
	return pk, pending
}

func caseOfPath(importPath string) (dir, rel string, ok bool) {
	if !strings.HasPrefix(importPath, ModPath+"/") {
		return "", "", false
	}
	rest := strings.TrimPrefix(importPath, ModPath+"/")
	parts := strings.SplitN(rest, "/", 2)
	if len(parts) == 2 {
		return parts[0], parts[1], true
	}
	return parts[0], "", true
}

func (rn *Runner) wireEnv() []string {
	return BaseEnv("GOCACHE=" + rn.S.GoCache)
}

func (rn *Runner) runBatch(cases []*Case) []*Result {
	mod := rn.S.Dir("mod")
	defer os.RemoveAll(mod)
	results := make([]*Result, len(cases))
	for i, c := range cases {
		results[i] = &Result{Case: c, Pkgs: map[string]*PkgResult{}, GenSrc: map[string]string{}}
	}
	if err := rn.materialise(mod, cases); err != nil {
		rn.internalf("materialise: %v", err)
		return results
	}
	byDir := map[string]*Result{}
	for _, r := range results {
		byDir[r.Case.Dir] = r
	}
	sub := rn.Cmd
	if sub == "" {
		sub = "gen"
	}
	if len(cases) > 1 {
		for _, r := range results {
			r.Company = cases
		}
	}
	if len(cases) == 1 {
		rn.runSolo(mod, results[0], sub)
		rn.readOutputs(mod, results[0])
		if (rn.AlsoCheck || rn.AlsoShow) && !results[0].TimedOut && !results[0].Crashed {
			rn.runReadOnly(mod, results, false)
		}
		rn.compileAndRun(mod, results)
		return results
	}
	argv := append([]string{rn.S.Wire, sub}, rn.ExtraGen...)
	argv = append(argv, "./...")
	res := RunLimited(mod, rn.wireEnv(), rn.GenTimeout, WireMemKB, argv...)
	rn.mu.Lock()
	rn.WireRuns++
	rn.mu.Unlock()
	normalise := func(s, dir string) string {
		s = strings.ReplaceAll(s, mod+"/"+dir+"/", "")
		s = strings.ReplaceAll(s, ModPath+"/"+dir, "{{ROOT}}")
		s = strings.ReplaceAll(s, mod+"/", "")
		return s
	}
	solo := false
	if res.TimedOut || rePanic.MatchString(res.Stderr) {
		solo = true
	} else {
		pk, rest := parseWire(res.Stderr)
		attributed := 0
		for path, p := range pk {
			dir, rel, ok := caseOfPath(path)
			if !ok || byDir[dir] == nil {
				continue
			}
			attributed++
			for i := range p.Diags {
				p.Diags[i] = normalise(p.Diags[i], dir)
			}
			byDir[dir].Pkgs[rel] = p
		}
		// A load failure (type error somewhere) or anything else not attributable: fall back to solo runs.
		// The closing line of a failing run ("at least one generate failure", "generate failed") is recognised by
		// its position - the last message of a run that exits non-zero - not by its wording.
		junk := rest
		if res.Exit != 0 && len(junk) > 0 {
			junk = junk[:len(junk)-1]
			if attributed == 0 {
				junk = rest // nothing but a closing line: the load itself failed
			}
		}
		if len(junk) > 0 {
			solo = true
			if dbg := os.Getenv("VERIF_DEBUG_DIR"); dbg != "" {
				os.WriteFile(filepath.Join(dbg, "junk-"+filepath.Base(mod)+".log"), []byte(strings.Join(junk, "\n")+"\n=====\n"+res.Stderr), 0o644)
			}
		}
		for _, r := range results {
			r.Exit = res.Exit
		}
	}
	if solo {
		bad := 0
		for _, r := range results {
			if bad >= 8 || rn.stopped() {
				r.NotRun = true // fail fast inside a batch that keeps hanging/crashing
				continue
			}
			rn.runSolo(mod, r, sub)
			if r.TimedOut || r.Crashed {
				bad++
			}
		}
	}
	// Read outputs.
	for _, r := range results {
		rn.readOutputs(mod, r)
	}
	if rn.AlsoCheck || rn.AlsoShow {
		// a batch whose load failed as a whole (ill-typed member) is re-analysed case by case
		rn.runReadOnly(mod, results, solo)
	}
	// Gen-stage done; compile and run accepted cases that ask for it.
	rn.compileAndRun(mod, results)
	return results
}

var reCaseDir = regexp.MustCompile(`/(c\d{5})(/|\b)`)

// attributeByPath assigns each diagnostic (a "wire: " message with continuation lines)
// to the case whose directory its first path mentions.
func attributeByPath(stderr string, exit int) (map[string][]string, []string) {
	by := map[string][]string{}
	var rest []string
	var msgs []string
	var cur *strings.Builder
	for _, line := range strings.Split(stderr, "\n") {
		if line == "" || strings.HasPrefix(line, "Warning: ") {
			continue
		}
		if strings.HasPrefix(line, "wire: ") {
			if cur != nil {
				msgs = append(msgs, cur.String())
			}
			cur = &strings.Builder{}
			cur.WriteString(strings.TrimPrefix(line, "wire: "))
			continue
		}
		if cur != nil {
			cur.WriteByte('\n')
			cur.WriteString(line)
		} else {
			rest = append(rest, line)
		}
	}
	if cur != nil {
		msgs = append(msgs, cur.String())
	}
	// every failing path of check and show ends with one closing line ("error loading packages"); it is recognised
	// by its position - the last message of a run that exits non-zero - not by its wording
	if exit != 0 && len(msgs) > 0 && reCaseDir.FindStringSubmatch(msgs[len(msgs)-1]) == nil {
		msgs = msgs[:len(msgs)-1]
	}
	for _, m := range msgs {
		if mm := reCaseDir.FindStringSubmatch(m); mm != nil {
			by[mm[1]] = append(by[mm[1]], m)
		} else {
			rest = append(rest, m)
		}
	}
	return by, rest
}

func dirHash(dir string) string { return ReadTree(dir).Hash() }

// ShowVariant is one more way of running wire show on every batch.
type ShowVariant struct {
	Name string
	Wire string
	Env  []string
}

// runReadOnly runs wire check / wire show on the batch and attributes their output.
func (rn *Runner) runReadOnly(mod string, results []*Result, forceSolo bool) {
	norm := func(s, dir string) string {
		s = strings.ReplaceAll(s, mod+"/"+dir+"/", "")
		s = strings.ReplaceAll(s, ModPath+"/"+dir, "{{ROOT}}")
		s = strings.ReplaceAll(s, mod+"/", "")
		return s
	}
	byDir := map[string]*Result{}
	for _, r := range results {
		byDir[r.Case.Dir] = r
	}
	type roPass struct {
		sub, name, bin string
		env            []string
	}
	var passes []roPass
	if rn.AlsoCheck {
		passes = append(passes, roPass{"check", "", rn.S.Wire, rn.wireEnv()})
	}
	if rn.AlsoShow {
		passes = append(passes, roPass{"show", "", rn.S.Wire, rn.wireEnv()})
		for _, v := range rn.ShowVariants {
			passes = append(passes, roPass{"show", v.Name, v.Wire, append(append([]string{}, rn.wireEnv()...), v.Env...)})
		}
	}
	for _, pass := range passes {
		sub := pass.sub
		before := dirHash(mod)
		roArgs := append(append([]string{pass.bin, sub}, rn.ExtraRO...), "./...")
		res := RunLimited(mod, pass.env, rn.GenTimeout, WireMemKB, roArgs...)
		rn.mu.Lock()
		rn.WireRuns++
		rn.mu.Unlock()
		changed := dirHash(mod) != before
		if dbg := os.Getenv("VERIF_DEBUG_DIR"); dbg != "" {
			os.WriteFile(filepath.Join(dbg, sub+"-"+filepath.Base(mod)+".log"), []byte("FIRSTCASE "+results[0].Case.ID+fmt.Sprintf(" exit=%d timedout=%v\n", res.Exit, res.TimedOut)+res.Stderr+"\n=====STDOUT\n"+res.Stdout), 0o644)
		}
		soloAll := res.TimedOut || rePanic.MatchString(res.Stderr) || (forceSolo && len(results) > 1)
		var by map[string][]string
		if !soloAll {
			var rest []string
			by, rest = attributeByPath(res.Stderr, res.Exit)
			if len(rest) > 0 {
				soloAll = true
			}
		}
		if soloAll && len(results) == 1 && (res.TimedOut || rePanic.MatchString(res.Stderr)) {
			// a batch of one that crashed or hung: repeating it alone would be the same run again
			r := results[0]
			diags := []string{"CRASH: " + norm(tail(res.Stderr, 1500), r.Case.Dir)}
			if res.TimedOut {
				diags = []string{"CRASH: did not terminate within the cap\n" + norm(tail(res.Stderr, 800), r.Case.Dir)}
			}
			if sub == "check" {
				r.CheckRan, r.CheckDiags = true, diags
			} else if pass.name == "" {
				r.ShowRan, r.ShowDiags = true, diags
			}
			continue
		}
		if soloAll {
			for _, r := range results {
				b := dirHash(filepath.Join(mod, r.Case.Dir))
				soloArgs := append(append([]string{pass.bin, sub}, rn.ExtraRO...), "./"+r.Case.Dir+"/...")
				sr := RunLimited(mod, pass.env, rn.SoloTimeout, WireMemKB, soloArgs...)
				rn.mu.Lock()
				rn.WireRuns++
				rn.mu.Unlock()
				if dirHash(filepath.Join(mod, r.Case.Dir)) != b {
					r.TreeChangedBy = sub
				}
				var diags []string
				if sr.TimedOut || rePanic.MatchString(sr.Stderr) {
					diags = []string{"CRASH: " + norm(tail(sr.Stderr, 1500), r.Case.Dir)}
				} else {
					m, rest := attributeByPath(sr.Stderr, sr.Exit)
					for _, d := range m[r.Case.Dir] {
						diags = append(diags, norm(d, r.Case.Dir))
					}
					for _, d := range rest {
						diags = append(diags, norm(d, r.Case.Dir))
					}
					if sr.Exit != 0 && len(diags) == 0 {
						diags = []string{"exit status " + fmt.Sprint(sr.Exit) + " without diagnostics"}
					}
				}
				if sub == "check" {
					r.CheckRan, r.CheckDiags = true, diags
				} else if pass.name != "" {
					if r.ShowOuts == nil {
						r.ShowOuts = map[string]string{}
					}
					r.ShowOuts[pass.name] = norm(sr.Stdout, r.Case.Dir)
				} else {
					r.ShowRan, r.ShowDiags, r.ShowOut = true, diags, norm(sr.Stdout, r.Case.Dir)
				}
			}
			continue
		}
		// split show's stdout per case: blocks are separated by blank lines and start with "<import path>".<Var>
		showBy := map[string]string{}
		if sub == "show" {
			for _, blk := range strings.Split(res.Stdout, "\n\n") {
				blk = strings.Trim(blk, "\n")
				if blk == "" {
					continue
				}
				if strings.HasPrefix(blk, "Injectors:") {
					for _, l := range strings.Split(blk, "\n")[1:] {
						if mm := reCaseDir.FindStringSubmatch(l); mm != nil {
							showBy[mm[1]] += "INJECTOR " + strings.TrimSpace(l) + "\n"
						}
					}
					continue
				}
				first := strings.SplitN(blk, "\n", 2)[0]
				if mm := reCaseDir.FindStringSubmatch(first); mm != nil {
					showBy[mm[1]] += blk + "\n\n"
				}
			}
		}
		for _, r := range results {
			var diags []string
			for _, d := range by[r.Case.Dir] {
				diags = append(diags, norm(d, r.Case.Dir))
			}
			if changed {
				r.TreeChangedBy = sub
			}
			if sub == "check" {
				r.CheckRan, r.CheckDiags = true, diags
			} else if pass.name != "" {
				if r.ShowOuts == nil {
					r.ShowOuts = map[string]string{}
				}
				r.ShowOuts[pass.name] = norm(showBy[r.Case.Dir], r.Case.Dir)
			} else {
				r.ShowRan, r.ShowDiags, r.ShowOut = true, diags, norm(showBy[r.Case.Dir], r.Case.Dir)
			}
		}
	}
}

func (rn *Runner) readOutputs(mod string, r *Result) {
	root := filepath.Join(mod, r.Case.Dir)
	filepath.Walk(root, func(p string, info os.FileInfo, err error) error {
		if err != nil || info.IsDir() {
			return nil
		}
		if strings.HasSuffix(p, "wire_gen.go") {
			b, _ := os.ReadFile(p)
			rel, _ := filepath.Rel(root, filepath.Dir(p))
			if rel == "." {
				rel = ""
			}
			r.GenSrc[rel] = string(b)
		}
		return nil
	})
}

// runSolo runs wire on one case alone (pattern ./<dir>/...).
func (rn *Runner) runSolo(mod string, r *Result, sub string) {
	dir := r.Case.Dir
	// remove outputs possibly written by the failed batch run
	filepath.Walk(filepath.Join(mod, dir), func(p string, info os.FileInfo, err error) error {
		if err == nil && !info.IsDir() && strings.HasSuffix(p, "wire_gen.go") {
			os.Remove(p)
		}
		return nil
	})
	argv := append([]string{rn.S.Wire, sub}, rn.ExtraGen...)
	argv = append(argv, "./"+dir+"/...")
	res := RunLimited(mod, rn.wireEnv(), rn.SoloTimeout, WireMemKB, argv...)
	rn.mu.Lock()
	rn.WireRuns++
	rn.mu.Unlock()
	r.Solo = true
	r.Exit = res.Exit
	r.Pkgs = map[string]*PkgResult{}
	norm := func(s string) string {
		s = strings.ReplaceAll(s, mod+"/"+dir+"/", "")
		s = strings.ReplaceAll(s, ModPath+"/"+dir, "{{ROOT}}")
		s = strings.ReplaceAll(s, mod+"/", "")
		return s
	}
	r.Raw = norm(res.Stderr)
	if res.TimedOut {
		r.TimedOut = true
		return
	}
	if rePanic.MatchString(res.Stderr) {
		r.Crashed = true
		return
	}
	pk, rest := parseWire(res.Stderr)
	for path, p := range pk {
		d, rel, ok := caseOfPath(path)
		if !ok || d != dir {
			continue
		}
		for i := range p.Diags {
			p.Diags[i] = norm(p.Diags[i])
		}
		r.Pkgs[rel] = p
	}
	// no package reached a verdict and the run failed: the load itself failed (the closing line's wording is not relied on)
	if res.Exit != 0 && len(pk) == 0 && len(rest) > 0 {
		r.LoadFailed = true
	}
	if r.LoadFailed {
		// keep the load diagnostics on the root package
		p := &PkgResult{Failed: true}
		for _, l := range rest {
			p.Diags = append(p.Diags, norm(l))
		}
		r.Pkgs[""] = p
	}
}

var reHdr = regexp.MustCompile(`(?m)^# (\S+)`)
var reLoadErr = regexp.MustCompile(`(?m)^([^\s/:]+)/[^\s:]*\.go:\d+:\d+: .*$`)

func (rn *Runner) compileAndRun(mod string, results []*Result) {
	var want []*Result
	for _, r := range results {
		if (r.Case.Drive || r.Case.Build) && r.Accepted() && r.Root().Wrote {
			want = append(want, r)
		}
	}
	if len(want) == 0 {
		return
	}
	env := BaseEnv("GOCACHE=" + rn.S.GoCache)
	bin := filepath.Join(mod, "zbin")
	for attempt := 0; attempt < 8 && len(want) > 0; attempt++ {
		var sb strings.Builder
		sb.WriteString("package main\n\nimport (\n")
		for _, r := range want {
			if r.Case.Drive {
				fmt.Fprintf(&sb, "\t%s %q\n", r.Case.Dir, ModPath+"/"+r.Case.Dir)
			} else {
				fmt.Fprintf(&sb, "\t_ %q\n", ModPath+"/"+r.Case.Dir)
			}
			for _, x := range r.Case.ExtraBuild {
				fmt.Fprintf(&sb, "\t_ %q\n", ModPath+"/"+r.Case.Dir+"/"+x)
			}
		}
		sb.WriteString(")\n\nfunc run(name string, f func()) {\n\tdefer func() {\n\t\tif r := recover(); r != nil {\n\t\t\tprintln(\"V|PANIC\", name)\n\t\t}\n\t}()\n\tf()\n}\n\nfunc main() {\n")
		for _, r := range want {
			if r.Case.Drive {
				fmt.Fprintf(&sb, "\trun(%q, %s.VerifDrive)\n", r.Case.Dir, r.Case.Dir)
			}
		}
		sb.WriteString("}\n")
		WriteFiles(mod, map[string]string{"zmain/main.go": sb.String()})
		res := Run(mod, env, 600*time.Second, "go", "build", "-o", bin, "./zmain")
		rn.mu.Lock()
		rn.Compiles++
		rn.mu.Unlock()
		if res.Exit == 0 {
			break
		}
		// attribute errors
		out := res.Stderr + res.Stdout
		idx := reHdr.FindAllStringSubmatchIndex(out, -1)
		failed := map[string]string{}
		for i, m := range idx {
			path := out[m[2]:m[3]]
			end := len(out)
			if i+1 < len(idx) {
				end = idx[i+1][0]
			}
			dir, _, ok := caseOfPath(path)
			if ok {
				failed[dir] += strings.ReplaceAll(out[m[0]:end], mod+"/", "")
			}
		}
		if len(failed) == 0 {
			// errors found while loading (an import that names no package) carry no "# pkg" header:
			// "c0003/wire_gen.go:9:2: package x is not in std"
			dirs := map[string]bool{}
			for _, r := range want {
				dirs[r.Case.Dir] = true
			}
			for _, m := range reLoadErr.FindAllStringSubmatch(out, -1) {
				if dirs[m[1]] {
					failed[m[1]] += m[0] + "\n"
				}
			}
		}
		if len(failed) == 0 {
			rn.internalf("go build failed without attributable package: %s", out)
			return
		}
		var next []*Result
		for _, r := range want {
			if msg, bad := failed[r.Case.Dir]; bad {
				r.CompileErr = strings.ReplaceAll(msg, ModPath+"/"+r.Case.Dir, "{{ROOT}}")
			} else {
				next = append(next, r)
			}
		}
		want = next
		os.Remove(bin)
	}
	for _, r := range want {
		r.Compiled = true
	}
	anyDrive := false
	for _, r := range want {
		if r.Case.Drive {
			anyDrive = true
		}
	}
	if !anyDrive {
		return
	}
	byDir := map[string]*Result{}
	for _, r := range want {
		byDir[r.Case.Dir] = r
	}
	// The driver runs every case in turn. A fatal error in generated code (stack overflow through a cleanup that
	// calls itself, runaway output, a hang) takes the whole process down: the case that was running is marked,
	// and a driver for the cases not yet run is built and run, a bounded number of times.
	for round := 0; round < 6; round++ {
		res := RunLimited(mod, env, 300*time.Second, WireMemKB, bin)
		var cur *Result
		for _, line := range strings.Split(res.Stderr, "\n") {
			if !strings.HasPrefix(line, "V|") {
				if line != "" && cur != nil && len(cur.Trace) < 200000 {
					cur.Trace = append(cur.Trace, "? "+line)
				}
				continue
			}
			line = line[2:]
			if strings.HasPrefix(line, "CASE ") {
				cur = byDir[strings.TrimPrefix(line, "CASE ")]
				if cur != nil {
					cur.Ran = true
				}
				continue
			}
			if strings.HasPrefix(line, "PANIC ") {
				if r := byDir[strings.TrimPrefix(line, "PANIC ")]; r != nil {
					r.Panicked = true
				}
				continue
			}
			if cur != nil && len(cur.Trace) < 200000 {
				cur.Trace = append(cur.Trace, line)
				if strings.HasPrefix(line, "D") {
					rn.mu.Lock()
					rn.Scenarios++
					rn.mu.Unlock()
				}
			}
		}
		if res.Exit == 0 && !res.TimedOut && !res.Flooded {
			break
		}
		if cur == nil {
			rn.internalf("driver binary failed before the first case (exit %d, timed out %v): %s", res.Exit, res.TimedOut, tail(res.Stderr, 2000))
			break
		}
		// cur was running when the process died
		cur.Panicked = true
		why := fmt.Sprintf("fatal: the driver process died in this case (exit %d, timed out %v, output flood %v)", res.Exit, res.TimedOut, res.Flooded)
		if len(cur.Trace) > 400 {
			cur.Trace = append(cur.Trace[:200:200], cur.Trace[len(cur.Trace)-200:]...)
		}
		cur.Trace = append(cur.Trace, "? "+why, "? "+tail(res.Stderr, 1500))
		var rest []*Result
		for _, r := range want {
			if r.Case.Drive && !r.Ran {
				rest = append(rest, r)
			}
		}
		if len(rest) == 0 {
			break
		}
		var sb strings.Builder
		sb.WriteString("package main\n\nimport (\n")
		for _, r := range rest {
			fmt.Fprintf(&sb, "\t%s %q\n", r.Case.Dir, ModPath+"/"+r.Case.Dir)
		}
		sb.WriteString(")\n\nfunc run(name string, f func()) {\n\tdefer func() {\n\t\tif r := recover(); r != nil {\n\t\t\tprintln(\"V|PANIC\", name)\n\t\t}\n\t}()\n\tf()\n}\n\nfunc main() {\n")
		for _, r := range rest {
			fmt.Fprintf(&sb, "\trun(%q, %s.VerifDrive)\n", r.Case.Dir, r.Case.Dir)
		}
		sb.WriteString("}\n")
		WriteFiles(mod, map[string]string{"zmain/main.go": sb.String()})
		if b := Run(mod, env, 600*time.Second, "go", "build", "-o", bin, "./zmain"); b.Exit != 0 {
			rn.internalf("rebuilding the driver for the remaining cases failed: %s", tail(b.Stderr, 1500))
			break
		}
		if round == 5 {
			rn.internalf("driver binary kept dying; %d cases not run", len(rest))
		}
	}
	if rn.AlsoTagged {
		rn.taggedRun(mod, env, want)
	}
}

// taggedRun builds the same drivers with -tags wireinject (the injector templates and the original
// declarations instead of wire_gen.go) and records their traces.
func (rn *Runner) taggedRun(mod string, env []string, want []*Result) {
	bin := filepath.Join(mod, "zbin-tagged")
	for attempt := 0; attempt < 8 && len(want) > 0; attempt++ {
		var sb strings.Builder
		sb.WriteString("package main\n\nimport (\n")
		for _, r := range want {
			if r.Case.Drive {
				fmt.Fprintf(&sb, "\t%s %q\n", r.Case.Dir, ModPath+"/"+r.Case.Dir)
			}
		}
		sb.WriteString(")\n\nfunc run(name string, f func()) {\n\tdefer func() {\n\t\tif r := recover(); r != nil {\n\t\t\tprintln(\"V|PANIC\", name)\n\t\t}\n\t}()\n\tf()\n}\n\nfunc main() {\n")
		for _, r := range want {
			if r.Case.Drive {
				fmt.Fprintf(&sb, "\trun(%q, %s.VerifDrive)\n", r.Case.Dir, r.Case.Dir)
			}
		}
		sb.WriteString("}\n")
		WriteFiles(mod, map[string]string{"zmain/main.go": sb.String()})
		res := Run(mod, env, 600*time.Second, "go", "build", "-tags", "wireinject", "-o", bin, "./zmain")
		if res.Exit == 0 {
			break
		}
		out := res.Stderr + res.Stdout
		idx := reHdr.FindAllStringSubmatchIndex(out, -1)
		failed := map[string]string{}
		for i, m := range idx {
			path := out[m[2]:m[3]]
			end := len(out)
			if i+1 < len(idx) {
				end = idx[i+1][0]
			}
			if dir, _, ok := caseOfPath(path); ok {
				failed[dir] += strings.ReplaceAll(out[m[0]:end], mod+"/", "")
			}
		}
		if len(failed) == 0 {
			rn.internalf("tagged go build failed without attributable package: %s", out)
			return
		}
		var next []*Result
		for _, r := range want {
			if msg, bad := failed[r.Case.Dir]; bad {
				r.TaggedCompileErr = msg
			} else {
				next = append(next, r)
			}
		}
		want = next
		os.Remove(bin)
	}
	if len(want) == 0 {
		return
	}
	res := RunLimited(mod, env, 300*time.Second, WireMemKB, bin)
	byDir := map[string]*Result{}
	for _, r := range want {
		byDir[r.Case.Dir] = r
	}
	var cur *Result
	for _, line := range strings.Split(res.Stderr, "\n") {
		if !strings.HasPrefix(line, "V|") {
			continue
		}
		line = line[2:]
		if strings.HasPrefix(line, "CASE ") {
			cur = byDir[strings.TrimPrefix(line, "CASE ")]
			if cur != nil {
				cur.TaggedRan = true
			}
			continue
		}
		if strings.HasPrefix(line, "PANIC ") {
			if r := byDir[strings.TrimPrefix(line, "PANIC ")]; r != nil {
				r.TaggedTrace = append(r.TaggedTrace, "PANIC")
			}
			continue
		}
		if cur != nil {
			cur.TaggedTrace = append(cur.TaggedTrace, line)
		}
	}
}

func tail(s string, n int) string {
	if len(s) > n {
		return s[len(s)-n:]
	}
	return s
}

// RunOne runs a single case alone in a fresh module (used for re-runs and replays).
// RunInCompany re-runs a whole batch (copies of its cases, same order) and returns the result of the case with the given id.
func (rn *Runner) RunInCompany(company []*Case, id string) *Result {
	cp := make([]*Case, len(company))
	for i, c := range company {
		cc := *c
		cp[i] = &cc
	}
	for _, r := range rn.runBatch(cp) {
		if r != nil && r.Case.ID == id {
			return r
		}
	}
	return nil
}

func (rn *Runner) RunOne(c *Case) *Result {
	cc := *c
	rs := rn.runBatch([]*Case{&cc})
	return rs[0]
}
