package h

import (
	"crypto/sha256"
	"encoding/hex"
	"fmt"
	"os"
	"path/filepath"
	"sort"
	"strings"
	"sync"
	"time"
)

// Tree is the full byte content of a module tree: relative path -> content.
// Since wire keeps no other state, a Tree is a complete, clonable state.
type Tree map[string]string

func (t Tree) Clone() Tree {
	c := make(Tree, len(t))
	for k, v := range t {
		c[k] = v
	}
	return c
}

// Hash is the canonical state key (sorted paths, SHA-256).
func (t Tree) Hash() string {
	keys := make([]string, 0, len(t))
	for k := range t {
		keys = append(keys, k)
	}
	sort.Strings(keys)
	h := sha256.New()
	for _, k := range keys {
		fmt.Fprintf(h, "%s\x00%d\x00%s\x00", k, len(t[k]), t[k])
	}
	return hex.EncodeToString(h.Sum(nil))[:16]
}

// Diff lists paths whose content differs between two trees (created, deleted, modified).
func (t Tree) Diff(o Tree) []string {
	var d []string
	for k, v := range t {
		if ov, ok := o[k]; !ok {
			d = append(d, "deleted:"+k)
		} else if ov != v {
			d = append(d, "modified:"+k)
		}
	}
	for k := range o {
		if _, ok := t[k]; !ok {
			d = append(d, "created:"+k)
		}
	}
	sort.Strings(d)
	return d
}

// ReadTree snapshots a directory (skipping go.mod/go.sum, which are constant).
func ReadTree(dir string) Tree {
	t := Tree{}
	filepath.Walk(dir, func(p string, info os.FileInfo, err error) error {
		if err != nil || info.IsDir() {
			return nil
		}
		rel, _ := filepath.Rel(dir, p)
		if rel == "go.mod" || rel == "go.sum" {
			return nil
		}
		b, _ := os.ReadFile(p)
		t[rel] = string(b)
		return nil
	})
	return t
}

// ageTree owns the file-time nondeterminism: every source file gets a modification time one hour in the
// past and every generated output file one hour in the future, so that an output is always "newer than its
// sources" -- the adversarial case for any time-stamp based shortcut.
func ageTree(dir string, t Tree) {
	past := time.Now().Add(-time.Hour)
	future := time.Now().Add(time.Hour)
	for p := range t {
		full := filepath.Join(dir, p)
		if strings.HasSuffix(p, "wire_gen.go") {
			os.Chtimes(full, future, future)
		} else {
			os.Chtimes(full, past, past)
		}
	}
}

// FSOp is one transition label: either a wire invocation (Argv non-nil) or an editor action.
type FSOp struct {
	Name string
	Argv []string                // arguments after the wire binary
	Dir  string                  // working directory relative to the module root
	Edit func(t Tree) (Tree, bool) // editor action: returns the new tree (false = not applicable here)
}

// FSOutcome is what a wire invocation did.
type FSOutcome struct {
	Exit     int
	Stdout   string
	Stderr   string
	TimedOut bool
	Crashed  bool
}

// FSState is a node of the explored graph.
type FSState struct {
	Tree  Tree
	Meta  interface{} // carried annotation (e.g. which source variant is checked out)
	Depth int
	Path  []string // op names from the initial state
}

// FSExplorer runs an explicit-state BFS over trees with real wire invocations as transitions.
type FSExplorer struct {
	S        *Scratch
	ModPath  string
	Workers  int
	MaxDepth int // <=0: to closure
	MaxStates int
	Ops      func(s *FSState) []FSOp
	// Next computes the Meta of the successor (default: same as before).
	Next func(s *FSState, op FSOp, after Tree) interface{}
	// Invariant is evaluated on every transition; it may run further commands in dir.
	Invariant func(s *FSState, op FSOp, out *FSOutcome, after Tree, dir string, run func(argv ...string) FSOutcome) []Violation
	// Key extends the state key (tree hash) with property-relevant Meta.
	Key func(s *FSState) string

	States      int
	Transitions int
	Invocations int
	MaxDepthSeen int
	Closed      bool
	Cut         bool // the budget ran out inside a level
	mu          sync.Mutex
}

func (e *FSExplorer) key(s *FSState) string {
	k := s.Tree.Hash()
	if e.Key != nil {
		k += "|" + e.Key(s)
	}
	return k
}

func (e *FSExplorer) runWire(dir, rel string, argv ...string) FSOutcome {
	wd := dir
	if rel != "" {
		wd = filepath.Join(dir, rel)
	}
	res := RunLimited(wd, BaseEnv("GOCACHE="+e.S.GoCache), 60*time.Second, WireMemKB, append([]string{e.S.Wire}, argv...)...)
	e.mu.Lock()
	e.Invocations++
	e.mu.Unlock()
	return FSOutcome{Exit: res.Exit, Stdout: res.Stdout, Stderr: res.Stderr, TimedOut: res.TimedOut, Crashed: rePanic.MatchString(res.Stderr)}
}

// Replay re-executes one history (as recorded in a violation's case id: "init ; op ; op ...")
// without the explorer and re-evaluates the invariant on every step.
func (e *FSExplorer) Replay(initial []*FSState, history string) ([]Violation, error) {
	steps := strings.Split(history, " ; ")
	var cur *FSState
	for _, s := range initial {
		if len(s.Path) > 0 && s.Path[0] == steps[0] {
			cur = s
		}
	}
	if cur == nil {
		return nil, fmt.Errorf("no initial state %q", steps[0])
	}
	var out []Violation
	for _, name := range steps[1:] {
		var op *FSOp
		for _, o := range e.Ops(cur) {
			if o.Name == name {
				oo := o
				op = &oo
			}
		}
		if op == nil {
			return out, fmt.Errorf("operation %q is not enabled in the state reached by %v", name, cur.Path)
		}
		next := &FSState{Meta: cur.Meta, Depth: cur.Depth + 1, Path: append(append([]string{}, cur.Path...), name)}
		if op.Edit != nil {
			nt, ok := op.Edit(cur.Tree.Clone())
			if !ok {
				return out, fmt.Errorf("edit %q not applicable", name)
			}
			next.Tree = nt
		} else {
			dir := e.S.Dir("replay")
			WriteFiles(dir, ModuleFiles(e.ModPath))
			WriteFiles(dir, cur.Tree)
			ageTree(dir, cur.Tree)
			o := e.runWire(dir, op.Dir, op.Argv...)
			after := ReadTree(dir)
			run := func(argv ...string) FSOutcome { return e.runWire(dir, op.Dir, argv...) }
			vs := e.Invariant(cur, *op, &o, after, dir, run)
			for i := range vs {
				vs[i].CaseID = strings.Join(next.Path, " ; ")
			}
			out = append(out, vs...)
			os.RemoveAll(dir)
			next.Tree = after
		}
		if e.Next != nil {
			next.Meta = e.Next(cur, *op, next.Tree)
		}
		cur = next
	}
	return out, nil
}

// Explore runs the BFS from the initial states and returns all violations found.
func (e *FSExplorer) Explore(initial []*FSState, deadline time.Time) []Violation {
	if e.Workers == 0 {
		e.Workers = 12
	}
	seen := map[string]bool{}
	var frontier []*FSState
	for _, s := range initial {
		k := e.key(s)
		if !seen[k] {
			seen[k] = true
			frontier = append(frontier, s)
		}
	}
	var violations []Violation
	e.Closed = true
	for depth := 0; len(frontier) > 0; depth++ {
		if e.MaxDepth > 0 && depth >= e.MaxDepth {
			e.Closed = false
			break
		}
		if time.Now().After(deadline) || len(violations) > 40 {
			e.Closed = false
			break
		}
		type job struct {
			s  *FSState
			op FSOp
		}
		type result struct {
			next *FSState
			vs   []Violation
		}
		var jobs []job
		for _, s := range frontier {
			for _, op := range e.Ops(s) {
				jobs = append(jobs, job{s, op})
			}
		}
		results := make([]result, len(jobs))
		var wg sync.WaitGroup
		ch := make(chan int)
		for w := 0; w < e.Workers; w++ {
			wg.Add(1)
			go func() {
				defer wg.Done()
				for i := range ch {
					j := jobs[i]
					results[i] = func() result {
						if j.op.Edit != nil {
							nt, ok := j.op.Edit(j.s.Tree.Clone())
							if !ok {
								return result{}
							}
							ns := &FSState{Tree: nt, Meta: j.s.Meta, Depth: j.s.Depth + 1, Path: append(append([]string{}, j.s.Path...), j.op.Name)}
							if e.Next != nil {
								ns.Meta = e.Next(j.s, j.op, nt)
							}
							return result{next: ns}
						}
						dir := e.S.Dir("fs")
						defer os.RemoveAll(dir)
						WriteFiles(dir, ModuleFiles(e.ModPath))
						WriteFiles(dir, j.s.Tree)
						ageTree(dir, j.s.Tree)
						out := e.runWire(dir, j.op.Dir, j.op.Argv...)
						after := ReadTree(dir)
						run := func(argv ...string) FSOutcome { return e.runWire(dir, j.op.Dir, argv...) }
						vs := e.Invariant(j.s, j.op, &out, after, dir, run)
						for i := range vs {
							vs[i].CaseID = strings.Join(append(append([]string{}, j.s.Path...), j.op.Name), " ; ")
						}
						ns := &FSState{Tree: after, Meta: j.s.Meta, Depth: j.s.Depth + 1, Path: append(append([]string{}, j.s.Path...), j.op.Name)}
						if e.Next != nil {
							ns.Meta = e.Next(j.s, j.op, after)
						}
						return result{next: ns, vs: vs}
					}()
				}
			}()
		}
		for i := range jobs {
			if time.Now().After(deadline) {
				// out of budget inside a level: the transitions not started are not explored (reported as not closed)
				e.Closed = false
				e.Cut = true
				break
			}
			ch <- i
		}
		close(ch)
		wg.Wait()
		var next []*FSState
		for _, r := range results {
			if r.next == nil {
				continue
			}
			e.Transitions++
			violations = append(violations, r.vs...)
			k := e.key(r.next)
			if !seen[k] {
				seen[k] = true
				next = append(next, r.next)
				if r.next.Depth > e.MaxDepthSeen {
					e.MaxDepthSeen = r.next.Depth
				}
			}
		}
		if e.MaxStates > 0 && len(seen) > e.MaxStates {
			e.Closed = false
			break
		}
		frontier = next
	}
	e.States = len(seen)
	return violations
}
