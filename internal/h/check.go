package h

import (
	"crypto/sha256"
	"encoding/hex"
	"encoding/json"
	"fmt"
	"os"
	"path/filepath"
	"sort"
	"strings"
	"time"
)

// Check carries the state of one property check run.
type Check struct {
	Prop     string
	Tier     string
	Level    string
	Only     string // replay: only the case with this id
	OnlyCompany []string // replay: the cases that must be processed by the same invocation (ids, in order)
	Collect   bool      // collect mode: JudgeAll only records the cases (used to reuse families in other properties)
	Collected []*Case
	Deadline time.Time
	S        *Scratch
	R        *Runner
	start    time.Time

	Violations   []Violation
	KnownHit     map[string]int // finding id -> reproduced cases
	Internal     []string
	Coverage     map[string]interface{}
	Assumptions  []string
	Samples      []interface{}
	Exhaustive   bool
	NotRun       int
	known        []knownFinding
	replayPaths  []string
	distinctProg map[string]bool
}

type knownFinding struct {
	Prop, ID, Symptom, What string
	Cases                  map[string]bool
}

// NewCheck prepares a check: scratch, wire build, runner, known findings.
func NewCheck(prop, tier, level string) (*Check, error) {
	c := &Check{Prop: prop, Tier: tier, Level: level, start: time.Now(), KnownHit: map[string]int{},
		Coverage: map[string]interface{}{}, Exhaustive: true, distinctProg: map[string]bool{}}
	budget := 10 * time.Minute
	if tier == "thorough" {
		budget = 100 * time.Minute
	}
	if v := os.Getenv("VERIF_BUDGET_S"); v != "" {
		var n int
		fmt.Sscanf(v, "%d", &n)
		if n > 0 {
			budget = time.Duration(n) * time.Second
		}
	}
	c.Deadline = c.start.Add(budget)
	s, err := NewScratch(strings.ToLower(prop))
	if err != nil {
		return nil, err
	}
	c.S = s
	c.R = NewRunner(s)
	c.R.Deadline = c.Deadline
	if err := c.loadKnown(); err != nil {
		return nil, err
	}
	return c, nil
}

// Collector returns a check object in collect mode sharing this check's scratch area.
func (c *Check) Collector(prop string) *Check {
	return &Check{Prop: prop, Tier: c.Tier, Collect: true, S: c.S, R: c.R, KnownHit: map[string]int{}, Coverage: map[string]interface{}{}, distinctProg: map[string]bool{}, Deadline: c.Deadline}
}

// Expired reports whether the internal deadline has passed (stop enumerating, exhaustive=false).
func (c *Check) Expired() bool {
	if time.Now().After(c.Deadline) {
		c.Exhaustive = false
		return true
	}
	return false
}

func (c *Check) loadKnown() error {
	b, err := os.ReadFile(filepath.Join(VerifDir(), "KNOWN_FINDINGS.txt"))
	if err != nil {
		if os.IsNotExist(err) {
			return nil
		}
		return err
	}
	for _, line := range strings.Split(string(b), "\n") {
		line = strings.TrimSpace(line)
		if !strings.HasPrefix(line, "known:") {
			continue
		}
		head, what, _ := strings.Cut(strings.TrimPrefix(line, "known:"), "::")
		kf := knownFinding{What: strings.TrimSpace(what), Cases: map[string]bool{}}
		casesFile := ""
		for _, f := range strings.Fields(head) {
			k, v, _ := strings.Cut(f, "=")
			switch k {
			case "property":
				kf.Prop = v
			case "id":
				kf.ID = v
			case "symptom":
				kf.Symptom = v
			case "cases":
				casesFile = v
			}
		}
		if kf.Prop != c.Prop {
			continue
		}
		if casesFile != "" {
			cb, err := os.ReadFile(filepath.Join(VerifDir(), casesFile))
			if err != nil {
				return fmt.Errorf("known finding %s: %v", kf.ID, err)
			}
			for _, l := range strings.Split(string(cb), "\n") {
				l = strings.TrimSpace(l)
				if l != "" && !strings.HasPrefix(l, "#") {
					kf.Cases[l] = true
				}
			}
		}
		c.known = append(c.known, kf)
	}
	return nil
}

// isKnown returns the finding a violation is listed under, if any.
func (c *Check) isKnown(v Violation) *knownFinding {
	for i := range c.known {
		k := &c.known[i]
		if k.Symptom == v.Symptom && k.Cases[v.CaseID] {
			return k
		}
	}
	return nil
}

// NoteProgram records a distinct rendered program (by content hash).
func (c *Check) NoteProgram(files map[string]string) bool {
	keys := make([]string, 0, len(files))
	for k := range files {
		keys = append(keys, k)
	}
	sort.Strings(keys)
	hsh := sha256.New()
	for _, k := range keys {
		hsh.Write([]byte(k))
		hsh.Write([]byte{0})
		hsh.Write([]byte(files[k]))
		hsh.Write([]byte{0})
	}
	s := hex.EncodeToString(hsh.Sum(nil))
	if c.distinctProg[s] {
		return false
	}
	c.distinctProg[s] = true
	return true
}

func (c *Check) DistinctPrograms() int { return len(c.distinctProg) }

// Internalf records a failure of the machinery itself (exit 2, never a verdict).
func (c *Check) Internalf(format string, a ...interface{}) {
	c.Internal = append(c.Internal, fmt.Sprintf(format, a...))
}

// JudgeAll runs the cases, judges them, re-runs violation candidates alone and
// files confirmed violations / known findings. It returns the results.
func (c *Check) JudgeAll(cases []*Case) []*Result {
	if c.Collect {
		c.Collected = append(c.Collected, cases...)
		rs := make([]*Result, len(cases))
		for i, cs := range cases {
			rs[i] = &Result{Case: cs, NotRun: true, Pkgs: map[string]*PkgResult{}}
		}
		return rs
	}
	if c.Only != "" {
		var f []*Case
		inCompany := map[string]bool{}
		for _, id := range c.OnlyCompany {
			inCompany[id] = true
		}
		for _, cs := range cases {
			if cs.ID == c.Only || inCompany[cs.ID] {
				f = append(f, cs)
			}
		}
		cases = f
	}
	results := c.R.RunAll(cases)
	reruns := 0
	for _, r := range results {
		if r == nil || r.NotRun {
			c.Exhaustive = false
			c.NotRun++
			continue
		}
		vs := r.Verdict
		if !r.Judged {
			vs = r.Case.Judge(r)
		}
		if len(vs) == 0 {
			continue
		}
		if c.Only != "" && r.Case.ID != c.Only {
			continue // replay in company: only the recorded case is reported
		}
		// group by symptom: one report per (case, symptom)
		seen := map[string]bool{}
		for _, v := range vs {
			v.CaseID = r.Case.ID
			if seen[v.Symptom] {
				continue
			}
			seen[v.Symptom] = true
			if strings.HasPrefix(v.Symptom, "harness") {
				// the machinery (renderer, driver, trace) is at fault: never a verdict
				c.Internalf("%s [%s]: %s", v.CaseID, v.Symptom, v.Detail)
				continue
			}
			if k := c.isKnown(v); k != nil {
				c.KnownHit[k.ID]++
				continue
			}
			if len(c.Violations) >= 25 {
				// enough to report; keep counting
				c.Violations = append(c.Violations, v)
				continue
			}
			// Re-run alone: must reproduce identically (same symptom) every time.
			n := 3
			if reruns < 3 {
				n = 5
			}
			if strings.Contains(v.Symptom, "timeout") || strings.Contains(v.Symptom, "crash") || reruns >= 12 {
				n = 1 // a run to the cap is three orders of magnitude above the normal time; one confirmation suffices
			}
			reruns++
			ok := true
			var last *Result
			for i := 0; i < n; i++ {
				rr := c.R.RunOne(r.Case)
				last = rr
				found := false
				for _, v2 := range r.Case.Judge(rr) {
					if v2.Symptom == v.Symptom {
						found = true
					}
				}
				if !found {
					ok = false
					break
				}
			}
			if !ok && strings.Contains(v.Symptom, "timeout") {
				// The cap is the only wall-clock oracle; a run that reaches it once on a loaded machine and
				// terminates normally when repeated alone is not a violation and not a harness error.
				n, _ := c.Coverage["timeouts_not_reproduced_alone"].(int)
				c.Coverage["timeouts_not_reproduced_alone"] = n + 1
				continue
			}
			var company []string
			if !ok && len(r.Company) > 1 {
				// Not alone - but perhaps whenever the same packages are processed by one invocation: the whole
				// batch is repeated (twice); a symptom that returns both times depends on the company, not on chance.
				again := 0
				for i := 0; i < 2; i++ {
					rr := c.R.RunInCompany(r.Company, r.Case.ID)
					if rr == nil {
						break
					}
					for _, v2 := range r.Case.Judge(rr) {
						if v2.Symptom == v.Symptom {
							again++
							last = rr
							break
						}
					}
				}
				if again == 2 {
					ok = true
					v.Detail = "only when processed by one wire invocation together with the other packages of its batch (reproduced in every repetition of the batch, never alone):\n" + v.Detail
					for _, cc := range r.Company {
						company = append(company, cc.ID)
					}
				}
			}
			if !ok {
				c.Internalf("candidate violation %s [%s] did not reproduce when run alone: %s", v.CaseID, v.Symptom, v.Detail)
				continue
			}
			c.Violations = append(c.Violations, v)
			c.writeReplay(r.Case, v, last, n)
			if company != nil {
				c.addCompany(company)
			}
		}
	}
	c.Internal = append(c.Internal, c.R.InternalErr...)
	c.R.InternalErr = nil
	return results
}

// AddViolation files a violation found by a family that does its own running
// (state-space explorers). files describe the replay artefact.
func (c *Check) AddViolation(v Violation, files map[string]string, extra map[string]interface{}) {
	if k := c.isKnown(v); k != nil {
		c.KnownHit[k.ID]++
		return
	}
	c.Violations = append(c.Violations, v)
	if len(c.replayPaths) >= 25 {
		return
	}
	dir := c.replayDir(v)
	os.MkdirAll(dir, 0o755)
	WriteFiles(filepath.Join(dir, "files"), files)
	m := map[string]interface{}{"property": c.Prop, "case_id": v.CaseID, "tier": c.Tier, "symptom": v.Symptom, "detail": v.Detail}
	for k, x := range extra {
		m[k] = x
	}
	b, _ := json.MarshalIndent(m, "", " ")
	os.WriteFile(filepath.Join(dir, "replay.json"), b, 0o644)
	c.replayPaths = append(c.replayPaths, dir)
}

func (c *Check) replayDir(v Violation) string {
	// replays/ is its own (empty) module so that replayed .go files never join /verif's build
	rd := filepath.Join(VerifDir(), "replays")
	if _, err := os.Stat(filepath.Join(rd, "go.mod")); err != nil {
		os.MkdirAll(rd, 0o755)
		os.WriteFile(filepath.Join(rd, "go.mod"), []byte("module replays\n"), 0o644)
	}
	hsh := sha256.Sum256([]byte(v.CaseID + "|" + v.Symptom))
	return filepath.Join(VerifDir(), "replays", c.Prop, hex.EncodeToString(hsh[:6]))
}

func (c *Check) writeReplay(cs *Case, v Violation, r *Result, reruns int) {
	dir := c.replayDir(v)
	os.RemoveAll(dir)
	os.MkdirAll(dir, 0o755)
	files := map[string]string{}
	for p, content := range cs.Files {
		files[p] = subst(content, ModPath+"/case", "case")
	}
	WriteFiles(filepath.Join(dir, "files"), files)
	obs := map[string]interface{}{}
	if r != nil {
		obs["exit"] = r.Exit
		obs["crashed"] = r.Crashed
		obs["timed_out"] = r.TimedOut
		obs["diagnostics"] = r.AllDiags()
		obs["raw_stderr"] = r.Raw
		obs["wire_gen"] = r.GenSrc
		obs["compile_error"] = r.CompileErr
		obs["trace"] = r.Trace
	}
	m := map[string]interface{}{
		"property": c.Prop, "case_id": v.CaseID, "tier": c.Tier, "symptom": v.Symptom, "detail": v.Detail,
		"commands": [][]string{{"wire", "gen", "./..."}, {"go", "build", "./..."}},
		"observed": obs, "reruns": reruns,
		"how_to_replay": "./vcheck " + c.Prop + " --replay " + dir,
	}
	b, _ := json.MarshalIndent(m, "", " ")
	os.WriteFile(filepath.Join(dir, "replay.json"), b, 0o644)
	c.replayPaths = append(c.replayPaths, dir)
}

// addCompany records, in the replay artefact written last, the ids of the cases that have to be processed together.
func (c *Check) addCompany(ids []string) {
	if len(c.replayPaths) == 0 {
		return
	}
	p := filepath.Join(c.replayPaths[len(c.replayPaths)-1], "replay.json")
	b, err := os.ReadFile(p)
	if err != nil {
		return
	}
	var m map[string]interface{}
	if json.Unmarshal(b, &m) != nil {
		return
	}
	m["company"] = ids
	b, _ = json.MarshalIndent(m, "", " ")
	os.WriteFile(p, b, 0o644)
}

// Finish writes the evidence file, prints the verdict lines and returns the exit code.
func (c *Check) Finish() int {
	defer func() {
		if c.S != nil {
			c.S.Close()
		}
	}()
	wall := time.Since(c.start).Seconds()
	cov := c.Coverage
	cov["exhaustive"] = c.Exhaustive
	if len(c.Samples) > 0 {
		cov["samples"] = c.Samples
	}
	cov["cases_not_run_after_fail_fast"] = c.NotRun
	cov["wire_invocations"] = c.R.WireRuns
	cov["compiles"] = c.R.Compiles
	cov["scenarios_executed"] = c.R.Scenarios
	kf := []string{}
	for id, n := range c.KnownHit {
		kf = append(kf, fmt.Sprintf("%s (%d cases reproduced)", id, n))
	}
	sort.Strings(kf)
	cov["known_findings_reproduced"] = kf
	seed := 0
	fmt.Sscanf(os.Getenv("VERIF_SEED"), "%d", &seed)
	if c.Assumptions == nil {
		c.Assumptions = []string{}
	}
	c.Assumptions = append(c.Assumptions, "checked program space is bounded to the alphabet and bounds stated in coverage.rule; wire is driven as the real binary built from /repo's working tree")
	ev := map[string]interface{}{
		"property_id": c.Prop, "tier": c.Tier, "seed": seed, "level": c.Level,
		"coverage": cov, "assumptions": c.Assumptions, "wall_s": wall, "violations": len(c.Violations),
	}
	if c.Only == "" && os.Getenv("VERIF_REPO") == "" { // demonstrations against a scratch tree never overwrite evidence
		b, _ := json.MarshalIndent(ev, "", " ")
		os.MkdirAll(filepath.Join(VerifDir(), "evidence"), 0o755)
		if err := os.WriteFile(filepath.Join(VerifDir(), "evidence", c.Prop+".json"), append(b, '\n'), 0o644); err != nil {
			c.Internalf("writing evidence: %v", err)
		}
	}
	for _, k := range c.known {
		if c.KnownHit[k.ID] > 0 {
			fmt.Printf("KNOWN-FINDING: property=%s %s [%s, %d listed cases reproduced]\n", c.Prop, k.What, k.ID, c.KnownHit[k.ID])
		}
	}
	if len(c.Violations) > 0 {
		for i, v := range c.Violations {
			if i >= 25 {
				fmt.Printf("... %d more violations:\n", len(c.Violations)-25)
				for _, w := range c.Violations[25:] {
					fmt.Printf("  more: case=%s symptom=%s\n", w.CaseID, w.Symptom)
				}
				break
			}
			p := c.replayDir(v)
			fmt.Printf("VIOLATION property=%s replay=%s\n", c.Prop, p)
			fmt.Printf("  case=%s symptom=%s\n%s\n", v.CaseID, v.Symptom, Indent(v.Detail, "    "))
		}
		return 1
	}
	if len(c.Internal) > 0 {
		for i, m := range c.Internal {
			if i > 10 {
				break
			}
			fmt.Fprintf(os.Stderr, "INTERNAL: %s\n", m)
		}
		return 2
	}
	fmt.Printf("OK property=%s tier=%s wall=%.1fs exhaustive=%v\n", c.Prop, c.Tier, wall, c.Exhaustive)
	return 0
}
