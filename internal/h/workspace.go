// Package h is the harness: scratch workspaces, building wire from /repo's
// working tree, batch runs of the real binary, compile+run of generated code,
// evidence and findings bookkeeping.
package h

import (
	"bytes"
	"context"
	"fmt"
	"os"
	"os/exec"
	"os/signal"
	"path/filepath"
	"strings"
	"sync"
	"sync/atomic"
	"syscall"
	"time"
)

// RepoDir is the tree under verification (VERIF_REPO only for demonstrations).
func RepoDir() string {
	if d := os.Getenv("VERIF_REPO"); d != "" {
		return d
	}
	return "/repo"
}

// VerifDir is where the machinery lives.
func VerifDir() string {
	if d := os.Getenv("VERIF_DIR"); d != "" {
		return d
	}
	return "/verif"
}

// BaseEnv is the fixed environment for every child process.
func BaseEnv(extra ...string) []string {
	keep := []string{"PATH", "HOME", "USER", "LANG", "TMPDIR"}
	var env []string
	for _, k := range keep {
		if v, ok := os.LookupEnv(k); ok {
			env = append(env, k+"="+v)
		}
	}
	env = append(env,
		"GOFLAGS=-mod=mod", "GOPROXY=off", "GOSUMDB=off", "GOTOOLCHAIN=local",
		"GOWORK=off", "GO111MODULE=on", "CGO_ENABLED=0", "GONOSUMDB=*", "GONOSUMCHECK=1", "GOFLAGS=-mod=mod",
	)
	env = append(env, extra...)
	return env
}

// Scratch is one check's scratch area (outside /repo and /verif).
type Scratch struct {
	Root    string
	Wire    string // path of the wire binary built from the working tree
	GoCache string // scratch GOCACHE for scratch programs
	mu      sync.Mutex
	n       int
}

var (
	cleanupMu   sync.Mutex
	cleanupDirs []string
)

func registerCleanup(dir string) {
	cleanupMu.Lock()
	cleanupDirs = append(cleanupDirs, dir)
	first := len(cleanupDirs) == 1
	cleanupMu.Unlock()
	if first {
		ch := make(chan os.Signal, 1)
		signal.Notify(ch, syscall.SIGINT, syscall.SIGTERM)
		go func() {
			<-ch
			CleanupAll()
			os.Exit(130)
		}()
	}
}

// CleanupAll removes every scratch directory created by this process.
func CleanupAll() {
	cleanupMu.Lock()
	defer cleanupMu.Unlock()
	for _, d := range cleanupDirs {
		os.RemoveAll(d)
	}
	cleanupDirs = nil
}

// NewScratch creates the scratch root, builds wire from the working tree with
// the hook guard on, and prepares a scratch GOCACHE seeded with the runtime.
func NewScratch(tag string) (*Scratch, error) {
	base := os.Getenv("VERIF_SCRATCH")
	if base == "" {
		base = os.TempDir()
	}
	root, err := os.MkdirTemp(base, "wverif-"+tag+"-")
	if err != nil {
		return nil, err
	}
	registerCleanup(root)
	s := &Scratch{Root: root, Wire: filepath.Join(root, "wire"), GoCache: filepath.Join(root, "gocache")}
	if err := BuildWire(s.Wire, nil); err != nil {
		return nil, err
	}
	if err := s.seedCache(); err != nil {
		return nil, err
	}
	return s, nil
}

// BuildWire builds cmd/wire from the repo working tree (guard tag verif on).
func BuildWire(out string, extraArgs []string) error {
	args := []string{"build", "-tags", "verif"}
	args = append(args, extraArgs...)
	args = append(args, "-o", out, "./cmd/wire")
	cmd := exec.Command("go", args...)
	cmd.Dir = RepoDir()
	cmd.Env = BaseEnv()
	outb, err := cmd.CombinedOutput()
	if err != nil {
		return fmt.Errorf("building wire from %s failed: %v\n%s", RepoDir(), err, outb)
	}
	return nil
}

// seedCache copies the warmed seed cache (runtime etc.) if present, else starts empty.
func (s *Scratch) seedCache() error {
	seed := filepath.Join(VerifDir(), ".cache", "seed-gocache")
	if _, err := os.Stat(seed); err == nil {
		cmd := exec.Command("cp", "-r", seed, s.GoCache)
		if out, err := cmd.CombinedOutput(); err != nil {
			return fmt.Errorf("seeding gocache: %v %s", err, out)
		}
		return nil
	}
	return os.MkdirAll(s.GoCache, 0o755)
}

// Dir returns a fresh numbered directory under the scratch root.
func (s *Scratch) Dir(prefix string) string {
	s.mu.Lock()
	s.n++
	n := s.n
	s.mu.Unlock()
	d := filepath.Join(s.Root, fmt.Sprintf("%s%04d", prefix, n))
	os.MkdirAll(d, 0o755)
	return d
}

// Close removes the scratch area.
func (s *Scratch) Close() {
	os.RemoveAll(s.Root)
}

// CmdResult is the outcome of one child process.
type CmdResult struct {
	Exit     int
	Stdout   string
	Stderr   string
	TimedOut bool
	Flooded  bool // output exceeded MaxOutputBytes; the process was killed
	Dur      time.Duration
}

// Run executes argv in dir with env under a timeout.
func Run(dir string, env []string, timeout time.Duration, argv ...string) CmdResult {
	ctx, cancel := context.WithTimeout(context.Background(), timeout)
	defer cancel()
	cmd := exec.CommandContext(ctx, argv[0], argv[1:]...)
	cmd.Dir = dir
	cmd.Env = env
	// output is kept up to a cap; a process that floods its output (runaway recursion in generated code) is killed
	var flooded int32
	so := &capBuf{limit: MaxOutputBytes, onFull: func() { atomic.StoreInt32(&flooded, 1); cancel() }}
	se := &capBuf{limit: MaxOutputBytes, onFull: func() { atomic.StoreInt32(&flooded, 1); cancel() }}
	cmd.Stdout = so
	cmd.Stderr = se
	cmd.SysProcAttr = &syscall.SysProcAttr{Setpgid: true, Pdeathsig: syscall.SIGKILL}
	cmd.Cancel = func() error {
		return syscall.Kill(-cmd.Process.Pid, syscall.SIGKILL)
	}
	cmd.WaitDelay = 2 * time.Second
	t0 := time.Now()
	err := cmd.Run()
	r := CmdResult{Stdout: so.String(), Stderr: se.String(), Dur: time.Since(t0)}
	if atomic.LoadInt32(&flooded) == 1 {
		r.Flooded = true
		r.Exit = -3
		return r
	}
	if ctx.Err() == context.DeadlineExceeded {
		r.TimedOut = true
		r.Exit = -1
		return r
	}
	if err != nil {
		if ee, ok := err.(*exec.ExitError); ok {
			r.Exit = ee.ExitCode()
		} else {
			r.Exit = -2
			r.Stderr += "\nexec error: " + err.Error()
		}
	}
	return r
}

// MaxOutputBytes caps the captured stdout and stderr of any child process.
const MaxOutputBytes = 96 << 20

type capBuf struct {
	mu     sync.Mutex
	buf    bytes.Buffer
	limit  int
	full   bool
	onFull func()
}

func (b *capBuf) Write(p []byte) (int, error) {
	b.mu.Lock()
	defer b.mu.Unlock()
	if b.full {
		return len(p), nil
	}
	if b.buf.Len()+len(p) > b.limit {
		b.full = true
		b.onFull()
		return len(p), nil
	}
	return b.buf.Write(p)
}

func (b *capBuf) String() string {
	b.mu.Lock()
	defer b.mu.Unlock()
	return b.buf.String()
}

// RunLimited is Run under an address-space limit (KiB): a runaway analysis dies
// with "fatal error: out of memory" instead of exhausting the sandbox.
func RunLimited(dir string, env []string, timeout time.Duration, memKB int, argv ...string) CmdResult {
	sh := fmt.Sprintf("ulimit -v %d; exec \"$@\"", memKB)
	full := append([]string{"/bin/sh", "-c", sh, "sh"}, argv...)
	return Run(dir, env, timeout, full...)
}

// WireMemKB is the address-space cap for every wire invocation (2 GiB).
const WireMemKB = 2 << 20

// WriteFiles writes files (relative path -> content) under dir.
func WriteFiles(dir string, files map[string]string) error {
	for p, c := range files {
		full := filepath.Join(dir, p)
		if err := os.MkdirAll(filepath.Dir(full), 0o755); err != nil {
			return err
		}
		if err := os.WriteFile(full, []byte(c), 0o644); err != nil {
			return err
		}
	}
	return nil
}

// ModuleFiles returns go.mod/go.sum for a user module that uses the working
// tree's marker package.
func ModuleFiles(modPath string) map[string]string {
	sum, _ := os.ReadFile(filepath.Join(RepoDir(), "go.sum"))
	return map[string]string{
		"go.mod": "module " + modPath + "\n\ngo 1.23\n\nrequire github.com/google/wire v0.0.0\n\nreplace github.com/google/wire => " + RepoDir() + "\n",
		"go.sum": string(sum),
	}
}

// Indent prefixes every line.
func Indent(s, p string) string {
	return p + strings.ReplaceAll(strings.TrimRight(s, "\n"), "\n", "\n"+p)
}
