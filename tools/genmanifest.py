#!/usr/bin/env python3
"""Regenerates /verif/MANIFEST.json from the table below (one entry per built check)."""
import json

TRUST = "Trusted: the Go toolchain, the traced runtime (vt, 150 lines), the reference model (no code shared with wire). Bounded to the stated alphabets; data values are symbolic identities (generated injectors are straight-line code branching only on err != nil)."

CHECKS = {
 "C07": dict(cat="model_checking", tech="bounded-exhaustive enumeration of provider digraphs (choice-tree DFS) run through the real binary, compared with a reference model",
   text="Every labelled digraph (self-loops included) on <=3 nodes (thorough: all 65 536 on 4 nodes) rendered as a Wire program, each node re-typed in turn as struct/field/binding edge, both placements; the real wire binary must reject exactly the cyclic ones with a cycle diagnostic and accept, compile and correctly wire the acyclic ones. Deterministic deep/wide scaling graphs (chains, diamond ladders with 2^60 paths, complete DAGs, fan-out, each with back edges) run under a 60 s / 2 GiB cap for termination.",
   note="Termination is decided by completion under a cap three orders of magnitude above the normal time, not by measuring growth. " + TRUST),
}

NOT_YET = {}

ALL = ["C%02d" % i for i in range(1, 21)]

def main():
    checks = []
    for pid in ALL:
        if pid not in CHECKS:
            continue
        c = CHECKS[pid]
        checks.append({
            "property_id": pid,
            "quick_cmd": "./vcheck %s --tier quick" % pid,
            "thorough_cmd": "./vcheck %s --tier thorough" % pid,
            "evidence_file": "evidence/%s.json" % pid,
            "replay_cmd_template": "./vcheck %s --replay {path}" % pid,
            "engine": "vcheck",
            "level_claimed": {"category": c["cat"], "text": c["text"], "design_ref": "DESIGN.md §4 " + pid},
            "level_note": c["note"],
            "technique": c["tech"],
        })
    na = [{"property_id": p, "reason": NOT_YET.get(p, "check not built yet in this session (in progress, DESIGN.md §7b build order); model checking applies and is planned")} for p in ALL if p not in CHECKS]
    m = {
        "version": 1,
        "setup_cmd": "./setup.sh",
        "hooks": {
            "guard": "verif",
            "enable": "cd /repo && go build -tags verif ./cmd/wire (every check rebuilds wire from the working tree this way; no hook is committed to /repo: instrumentation is generated from the working tree and applied with go build -overlay)",
            "baseline_off_cmd": "cd /repo && GOFLAGS=-mod=mod GOPROXY=off GOSUMDB=off GOTOOLCHAIN=local go test -vet=off -count=1 ./...",
            "source_commits": [],
            "add_only": True,
        },
        "engines": [{
            "name": "vcheck", "path": "cmd/vcheck", "serves_properties": sorted(CHECKS),
            "kind_free_text": "hand-written stateless choice-tree explorer (deviation-bounded DFS) and explicit-state BFS driving the real wire binary built from /repo's working tree; independent Go reference model; traced runtime + fault enumerator linked with the generated code",
        }],
        "checks": checks,
        "not_applicable": na,
        "notes": "One binary (cmd/vcheck) serves every property: ./vcheck <id> --tier quick|thorough [--replay dir]. Exit 0 held / 1 VIOLATION / 2 the check itself is broken. Known findings: KNOWN_FINDINGS.txt + findings/*.cases.",
    }
    json.dump(m, open("/verif/MANIFEST.json", "w"), indent=1, ensure_ascii=False)
    print("MANIFEST.json written:", len(checks), "checks,", len(na), "not_applicable")

main()
