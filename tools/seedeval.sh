#!/bin/bash
# usage: tools/seedeval.sh <prop> <k> [check ...]
# Confirms a seeded change (patch applies, builds, pinned suite still passes, demo fails
# with it and passes without) in a scratch worktree, runs the checks against it, and
# stores it under /verif/seeded/<prop>-<k>/.
set -u
export GOFLAGS=-mod=mod GOPROXY=off GOSUMDB=off GOTOOLCHAIN=local
P=$1; K=$2; shift 2
CHECKS=${*:-$P}
SRC=${SEEDROOT:-/tmp/seed}/$P/out
W=$(mktemp -d /tmp/wseed.XXXXXX); rmdir "$W"
git -C /repo worktree add --detach "$W" >/dev/null 2>&1 || { echo "worktree failed"; exit 2; }
cleanup() { git -C /repo worktree remove --force "$W" >/dev/null 2>&1; rm -rf "$W"; }
trap cleanup EXIT
git -C "$W" apply "$SRC/patch$K.diff" || { echo "RESULT patch-does-not-apply"; exit 3; }
(cd "$W" && go build ./...) || { echo "RESULT does-not-compile"; exit 3; }
F=$(cd "$W" && go test -vet=off -count=1 ./... 2>&1 | grep -E "^\s*--- FAIL" | grep -v "TestWire/UnexportedStruct\|--- FAIL: TestWire (")
if [ -n "$F" ]; then echo "RESULT suite-fails: $F"; exit 3; fi
echo "suite: passes with the change"
D=$(mktemp -d /tmp/wdemo.XXXXXX)
cp -r "$SRC/demo$K" "$D/demo"
(cd "$D/demo" && timeout 300 bash ./run.sh "$W" >/dev/null 2>&1); WITH=$?
rm -rf "$D/demo"; cp -r "$SRC/demo$K" "$D/demo"
(cd "$D/demo" && timeout 300 bash ./run.sh /repo >/dev/null 2>&1); WITHOUT=$?
rm -rf "$D"
echo "demo: with-change exit=$WITH without exit=$WITHOUT"
if [ "$WITH" = 0 ] || [ "$WITHOUT" != 0 ]; then echo "RESULT demo-not-confirmed"; fi
DET=""
for c in $CHECKS; do
  OUT=$(VERIF_REPO="$W" VERIF_BUDGET_S=900 /verif/vcheck $c 2>&1)
  if echo "$OUT" | grep -q "^VIOLATION property=$c"; then DET="$DET $c:DETECTED"; else DET="$DET $c:missed"; fi
  echo "$OUT" | grep -E "^(VIOLATION|OK|INTERNAL|  case)" | head -6
done
echo "RESULT$DET"
if [ "$WITH" != 0 ] && [ "$WITHOUT" = 0 ]; then
  T=/verif/seeded/$P-$K${SEEDSUFFIX:-}
  rm -rf "$T"; mkdir -p "$T"
  cp "$SRC/patch$K.diff" "$T/patch.diff"
  cp -r "$SRC/demo$K" "$T/demo"
  find "$T/demo" -name "*.go" -exec mv {} {}.txt \; 2>/dev/null
  python3 - "$SRC/meta$K.json" "$T/meta.json" "$DET" <<'PY'
import json,sys
try: m=json.load(open(sys.argv[1]))
except Exception: m={}
m['confirmed']={'suite':'96 stable tests still pass with the change','demo':'run.sh exits non-zero with the change and 0 on /repo','checks':sys.argv[3].strip()}
m['note']='demo .go files are stored with a .txt suffix so that they never join /verif\'s build; rename back to replay'
json.dump(m,open(sys.argv[2],'w'),indent=1)
PY
fi
