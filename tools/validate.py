#!/usr/bin/env python3-vt
import json, sys, glob, jsonschema
m = json.load(open('/verif/MANIFEST.json'))
jsonschema.validate(m, json.load(open('/root/.vp/MANIFEST.schema.json')))
es = json.load(open('/root/.vp/EVIDENCE.schema.json'))
for f in sorted(glob.glob('/verif/evidence/*.json')):
    jsonschema.validate(json.load(open(f)), es)
ids = [json.loads(l)['id'] for l in open('/verif/properties.jsonl')]
claimed = {c['property_id'] for c in m['checks']}
na = {c['property_id'] for c in m.get('not_applicable', [])}
print('manifest+evidence ok; claimed', len(claimed), 'not_applicable', len(na), 'unlisted', [i for i in ids if i not in claimed and i not in na])
