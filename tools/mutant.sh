#!/bin/sh
# usage: tools/mutant.sh <patch-file|-> <check...>   (patch from stdin with -)
# Applies a patch to a scratch worktree of /repo, runs the pinned suite there
# (must still pass), runs the given checks against it (VERIF_REPO), removes it.
set -u
export GOFLAGS=-mod=mod GOPROXY=off GOSUMDB=off GOTOOLCHAIN=local
W=$(mktemp -d /tmp/wmut.XXXXXX)
rmdir "$W"
git -C /repo worktree add --detach "$W" >/dev/null 2>&1 || { echo "worktree failed"; exit 2; }
cleanup() { git -C /repo worktree remove --force "$W" >/dev/null 2>&1; rm -rf "$W"; }
trap cleanup EXIT
P="$1"; shift; case "$P" in -|/*) ;; *) P="$PWD/$P";; esac
if [ "$P" = "-" ]; then git -C "$W" apply - || { echo "patch failed"; exit 2; }
else git -C "$W" apply "$P" || { echo "patch failed"; exit 2; }; fi
(cd "$W" && go build ./... ) || { echo "MUTANT DOES NOT COMPILE"; exit 3; }
if [ "${SKIP_SUITE:-}" = "" ]; then
  F=$(cd "$W" && go test -vet=off -count=1 ./... 2>&1 | grep -E "^\s*--- FAIL" | grep -v "TestWire/UnexportedStruct\|--- FAIL: TestWire (" | head -20)
  if [ -n "$F" ]; then echo "SUITE FAILS WITH MUTANT:"; echo "$F"; else echo "suite: still passes (96 stable tests)"; fi
fi
for c in "$@"; do
  echo "== $c"
  VERIF_REPO="$W" /verif/vcheck $c 2>&1 | grep -E "^(VIOLATION|OK|KNOWN|INTERNAL|  case)" | head -12
done
