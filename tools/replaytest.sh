#!/bin/bash
# usage: tools/replaytest.sh <check> <patch>: the check must report a violation on the patched tree, and replaying
# the first recorded artefact must report it again (exit 1) on the patched tree and pass (exit 0) on /repo.
set -u
export GOFLAGS=-mod=mod GOPROXY=off GOSUMDB=off GOTOOLCHAIN=local
C=$1; P=$2
W=$(mktemp -d /tmp/wrep.XXXXXX); rmdir "$W"
git -C /repo worktree add --detach "$W" >/dev/null 2>&1 || exit 2
trap 'git -C /repo worktree remove --force "$W" >/dev/null 2>&1; rm -rf "$W"' EXIT
git -C "$W" apply "$P" || { echo "patch failed"; exit 2; }
OUT=$(VERIF_REPO="$W" /verif/vcheck $C 2>&1); 
R=$(echo "$OUT" | grep -m1 "^VIOLATION" | sed 's/.*replay=//')
[ -z "$R" ] && { echo "$C: no violation on the patched tree"; exit 1; }
VERIF_REPO="$W" /verif/bin/vcheck $C --replay "$R" >/tmp/replaytest.$$ 2>&1; A=$?
VERIF_REPO=/repo /verif/bin/vcheck $C --replay "$R" >/dev/null 2>&1; B=$?
echo "$C: replay on patched tree exit=$A (want 1), on /repo exit=$B (want 0)  [$R]"
[ $A -ne 1 ] && tail -5 /tmp/replaytest.$$
rm -f /tmp/replaytest.$$
