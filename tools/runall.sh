#!/bin/bash
# Runs every registered quick (or thorough) check on /repo and prints status and wall time.
cd /verif
TIER=${1:-quick}
export GOFLAGS=-mod=mod GOPROXY=off GOSUMDB=off GOTOOLCHAIN=local
for p in $(./bin/vcheck list | awk '{print $1}'); do
  s=$(date +%s)
  out=$(./vcheck $p --tier $TIER 2>&1); rc=$?
  e=$(date +%s)
  echo "$p rc=$rc $((e-s))s $(echo "$out" | grep -E '^(OK|VIOLATION|INTERNAL)' | head -2 | tr '\n' ' ' | cut -c1-160)"
done
