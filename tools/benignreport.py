#!/usr/bin/env python3
"""Writes seeded/BENIGN.md from the logs of tools/benigneval.sh (directory given as argv[1])."""
import sys, os, re, json, glob
res = sys.argv[1]
EXPECTED = re.compile(r"bind-chain|method-injector|type-switch|alias-of-foreign-set|set-variable|same-method-set|all-rows")
rows = []
for f in sorted(glob.glob(os.path.join(res, "*.log"))):
    b = os.path.basename(f)[:-4]
    base = "a54dab0 (does not apply to HEAD)" if os.path.exists(f + ".base") else "HEAD"
    lines = [l.split() for l in open(f) if l.strip() and not l.startswith("#")]
    nonzero = [l[0] for l in lines if len(l) > 1 and l[1] != "rc=0"]
    unexpected = []
    for c in nonzero:
        p = f + "." + c
        if os.path.exists(p):
            for l in open(p):
                if ("case=" in l or l.startswith("INTERNAL")) and not EXPECTED.search(l):
                    unexpected.append(c + ": " + l.strip()[:120])
    summ = ""
    mp = "/verif/seeded/benign/%s/meta.json" % b
    if os.path.exists(mp):
        try:
            summ = json.load(open(mp)).get("summary", "").replace("\n", " ").replace("|", "/")[:200]
        except Exception:
            pass
    rows.append((b, base, len(lines), " ".join(nonzero) or "-", "; ".join(unexpected[:3]) or "-", summ))
out = ["# Property-preserving changes (false-alarm round)", "",
       "Each patch (`seeded/benign/<id>/patch.diff`, written by a sub-agent that saw only the property list) was applied to a scratch",
       "worktree and all twenty quick checks were run against it with a frozen checker binary. Patches that no longer apply to",
       "HEAD (they touch code later changed by a `fix:` commit) were evaluated on the commit their authors saw (a54dab0); there the",
       "families that exist *because of* later repairs (chains of bindings, method injectors, type-switch variables, alias sets in",
       "`show`, non-NewSet set variables) report the unrepaired defects of that commit, which is expected and not counted.", "",
       "| patch | base | checks run | non-zero exits | violations outside the expected families | change |", "|---|---|---|---|---|---|"]
for r in rows:
    out.append("| %s | %s | %d | %s | %s | %s |" % r)
open("/verif/seeded/BENIGN.md", "w").write("\n".join(out) + "\n")
print(len(rows), "rows")
