#!/bin/sh
# usage: tools/benigneval.sh <patch-file> <outlog> [checks...]
# Applies a property-preserving patch to a scratch worktree and runs the quick checks against it;
# every check is expected to exit 0 (a non-zero exit is a false alarm of the machinery).
set -u
export GOFLAGS=-mod=mod GOPROXY=off GOSUMDB=off GOTOOLCHAIN=local
P="$1"; OUT="$2"; shift 2
CHECKS="${*:-C01 C02 C03 C04 C05 C06 C07 C08 C09 C10 C11 C12 C13 C14 C15 C16 C17 C18 C19 C20}"
W=$(mktemp -d /tmp/wben.XXXXXX); rmdir "$W"
git -C /repo worktree add --detach "$W" >/dev/null 2>&1 || { echo "worktree failed"; exit 2; }
cleanup() { git -C /repo worktree remove --force "$W" >/dev/null 2>&1; rm -rf "$W"; }
trap cleanup EXIT
if [ -n "${FORCE_BASE:-}" ] || ! git -C "$W" apply "$P" 2>/dev/null; then
  git -C "$W" checkout -q -- . 2>/dev/null
  # written against an older HEAD: fall back to the commit the patch authors saw
  git -C "$W" checkout -q --detach ${BENIGN_BASE:-a54dab0} && git -C "$W" apply "$P" || { echo "patch failed" > "$OUT"; exit 2; }
  echo "# applied on ${BENIGN_BASE:-a54dab0} (does not apply to HEAD)" > "$OUT.base"
fi
(cd "$W" && go build ./...) || { echo "does not compile" > "$OUT"; exit 3; }
: > "$OUT"
for c in $CHECKS; do
  S=$(date +%s)
  VERIF_REPO="$W" ${VCHECK_BIN:-/verif/bin/vcheck} $c --tier quick > "$OUT.$c" 2>&1; rc=$?
  echo "$c rc=$rc $(( $(date +%s) - S ))s" >> "$OUT"
  if [ $rc -eq 0 ]; then rm -f "$OUT.$c"; fi
done
