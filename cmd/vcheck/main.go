// vcheck <Cnn> [--tier quick|thorough] [--replay path]
package main

import (
	"encoding/json"
	"fmt"
	"os"
	"path/filepath"
	"sort"

	"verif/internal/h"
	"verif/internal/props"
)

func main() {
	if len(os.Args) < 2 {
		fmt.Fprintln(os.Stderr, "usage: vcheck <property|list> [--tier quick|thorough] [--replay path]")
		os.Exit(2)
	}
	prop := os.Args[1]
	if prop == "list" {
		var ids []string
		for id := range props.Registry {
			ids = append(ids, id)
		}
		sort.Strings(ids)
		for _, id := range ids {
			fmt.Println(id, props.Levels[id])
		}
		return
	}
	tier := os.Getenv("VERIF_TIER")
	replay := ""
	for i := 2; i < len(os.Args); i++ {
		switch os.Args[i] {
		case "--tier":
			i++
			tier = os.Args[i]
		case "--replay":
			i++
			replay = os.Args[i]
		}
	}
	if tier != "thorough" {
		tier = "quick"
	}
	f, ok := props.Registry[prop]
	if !ok {
		fmt.Fprintf(os.Stderr, "unknown property %s\n", prop)
		os.Exit(2)
	}
	c, err := h.NewCheck(prop, tier, props.Levels[prop])
	if err != nil {
		fmt.Fprintf(os.Stderr, "INTERNAL: %v\n", err)
		h.CleanupAll()
		os.Exit(2)
	}
	if replay != "" {
		b, err := os.ReadFile(filepath.Join(replay, "replay.json"))
		if err != nil {
			fmt.Fprintf(os.Stderr, "INTERNAL: %v\n", err)
			os.Exit(2)
		}
		var m map[string]interface{}
		json.Unmarshal(b, &m)
		c.Only, _ = m["case_id"].(string)
		if comp, ok := m["company"].([]interface{}); ok {
			for _, x := range comp {
				if id, ok := x.(string); ok {
					c.OnlyCompany = append(c.OnlyCompany, id)
				}
			}
		}
		if t, _ := m["tier"].(string); t != "" {
			c.Tier = t
		}
	}
	code := 2
	func() {
		defer func() {
			if r := recover(); r != nil {
				fmt.Fprintf(os.Stderr, "INTERNAL: panic in check: %v\n", r)
				panic(r)
			}
		}()
		f(c)
		code = c.Finish()
	}()
	h.CleanupAll()
	os.Exit(code)
}
